#!/venv/bin/python
"""Behaviour-preserving changes (written by independent sub-agents that were
given all property statements and asked for realistic refactors which keep
every property true).  Every check is run against each; any VIOLATION is a
false alarm.  usage: refactors.py [name ...] [-- props...]"""
import glob
import json
import os
import subprocess
import sys

VERIF = os.path.dirname(os.path.dirname(os.path.abspath(__file__)))
args = sys.argv[1:]
props = []
if '--' in args:
    i = args.index('--')
    props = args[i + 1:]
    args = args[:i]
alarms = 0
for d in sorted(glob.glob(os.path.join(VERIF, 'selftest/refactors/R*'))):
    name = os.path.basename(d)
    if args and name not in args:
        continue
    r = subprocess.run([os.path.join(VERIF, 'selftest/sensitivity.py'),
                        os.path.join(d, 'patch.diff')] + props,
                       capture_output=True, text=True)
    bad = [ln for ln in r.stdout.splitlines()
           if ' exit=' in ln and ' exit=0 ' not in ln]
    print(name, 'FALSE ALARM' if bad else 'no alarm',
          json.load(open(os.path.join(d, 'meta.json')))['summary'][:90])
    for ln in bad:
        print('   ', ln[:300])
        alarms += 1
    sys.stdout.flush()
print('refactors: %d alarms' % alarms)
sys.exit(1 if alarms else 0)
