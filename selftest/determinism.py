#!/venv/bin/python
"""Determinism self-test (DESIGN 10): the same seeds must give the same
event-log digests (a) run twice, (b) with 1, 4 and 16 workers, (c) under other
PYTHONHASHSEED values in fresh interpreters.  Usage:
    selftest/determinism.py [props...] [--runs N]"""
import json
import os
import subprocess
import sys
import tempfile

VERIF = os.path.dirname(os.path.dirname(os.path.abspath(__file__)))


def run(prop, runs, workers, hashseed, seed):
    out = tempfile.mktemp(suffix='.json')
    env = dict(os.environ)
    env.pop('VERIF_NO_REEXEC', None)
    env['VERIF_SEED'] = str(seed)
    if hashseed is not None:
        env['VERIF_HASHSEED'] = str(hashseed)
        env.pop('PYTHONHASHSEED', None)
    cmd = ['/venv/bin/python', os.path.join(VERIF, 'bin', 'check.py'), prop,
           '--runs', str(runs), '--workers', str(workers), '--no-evidence',
           '--digests', out, '--budget', '3000']
    p = subprocess.run(cmd, env=env, capture_output=True, text=True)
    d = json.load(open(out))
    os.unlink(out)
    return d, p.returncode, p.stdout[-300:]


def main():
    args = sys.argv[1:]
    runs = 400
    if '--runs' in args:
        i = args.index('--runs')
        runs = int(args[i + 1])
        del args[i:i + 2]
    props = args or ['C05', 'C07', 'C01', 'C02', 'C11', 'C16', 'C20']
    bad = 0
    for prop in props:
        base, rc, tail = run(prop, runs, 16, None, 7)
        variants = [('again', 16, None), ('1 worker', 1, None),
                    ('4 workers', 4, None), ('hashseed 1', 16, 1),
                    ('hashseed 12345', 5, 12345)]
        for label, nw, hs in variants:
            d, rc2, _ = run(prop, runs, nw, hs, 7)
            diff = [k for k in base if base[k] != d.get(k)]
            status = 'same' if not diff and len(d) == len(base) else \
                'DIFFERENT (%d of %d seeds, e.g. %s)' % (len(diff), len(base),
                                                         diff[:3])
            if diff or len(d) != len(base) or rc2 != rc:
                bad += 1
            print('%s %-14s %d digests rc=%d/%d %s' % (prop, label, len(d), rc,
                                                      rc2, status))
            sys.stdout.flush()
    print('determinism: %s' % ('OK' if not bad else '%d MISMATCHES' % bad))
    return 1 if bad else 0


if __name__ == '__main__':
    sys.exit(main())
