#!/venv/bin/python
"""seeded_all.py [--from-meta] [--jobs N] [name-prefix ...]

Re-run the owning property's quick check against every seeded change (N at a
time) and write seeded/SUMMARY.json (which checks catch which changes).  With
--from-meta the summary is assembled from the recorded meta.json files
without running anything.  A change whose meta.json carries `caught_note`
(caught by another property's check or at the thorough tier) or
`not_caught_note` (outside every property's domain, with the reason) is not
counted as missed when the owning quick check stays quiet."""
import glob
import json
import os
import subprocess
import sys
from concurrent.futures import ThreadPoolExecutor

VERIF = os.path.dirname(os.path.dirname(os.path.abspath(__file__)))
args = sys.argv[1:]
from_meta = '--from-meta' in args
if from_meta:
    args.remove('--from-meta')
jobs = 4
if '--jobs' in args:
    i = args.index('--jobs')
    jobs = int(args[i + 1])
    del args[i:i + 2]
dirs = [d for d in sorted(glob.glob(os.path.join(VERIF, 'seeded', 'C*')))
        if os.path.isdir(d) and (not args or any(
            os.path.basename(d).startswith(a) for a in args))]


def one(d):
    name = os.path.basename(d)
    prop = name[:3]
    meta = json.load(open(os.path.join(d, 'meta.json')))
    row = {'change': name, 'property': prop, 'summary': meta.get('summary'),
           'recorded_caught_by': meta.get('caught_by', []),
           'caught_note': meta.get('caught_note'),
           'not_caught_note': meta.get('not_caught_note')}
    if from_meta:
        row['caught_by'] = meta.get('caught_by', [])
        row['first_violation'] = meta.get('first_violation')
        return row
    r = subprocess.run([os.path.join(VERIF, 'selftest/sensitivity.py'),
                        os.path.join(d, 'patch.diff'), prop],
                       capture_output=True, text=True)
    lines = r.stdout.strip().splitlines()
    caught = [ln.split(':', 1)[1].split() for ln in lines
              if ln.startswith('CAUGHT-BY')]
    caught = caught[0] if caught else ['?']
    row['caught_by'] = [] if caught in (['none'], ['?']) else caught
    row['first_violation'] = next((ln[:300] for ln in lines
                                   if 'VIOLATION' in ln), None)
    print(name, caught)
    sys.stdout.flush()
    return row


with ThreadPoolExecutor(max_workers=jobs) as ex:
    rows = list(ex.map(one, dirs))
missed = [r['change'] for r in rows if not r['caught_by'] and
          not r['caught_note'] and not r['not_caught_note']]
elsewhere = [r['change'] for r in rows if r['caught_note']]
outside = [r['change'] for r in rows if r['not_caught_note']]
if not args:
    json.dump({'changes': rows, 'total': len(rows),
               'caught_by_own_quick_check': sum(
                   1 for r in rows if r['property'] in r['caught_by'] and
                   not r['caught_note']),
               'caught_elsewhere_or_thorough': elsewhere,
               'outside_every_domain': outside, 'missed': missed},
              open(os.path.join(VERIF, 'seeded', 'SUMMARY.json'), 'w'),
              indent=1)
print('seeded changes: %d, own quick check: %d, elsewhere/thorough: %d, '
      'outside: %d, missed: %d %s' % (
          len(rows), sum(1 for r in rows if r['property'] in r['caught_by']
                         and not r['caught_note']),
          len(elsewhere), len(outside), len(missed), missed))
sys.exit(1 if missed else 0)
