#!/venv/bin/python
"""Re-run the owning property's quick check against every seeded change and
write seeded/SUMMARY.json (which checks catch which changes)."""
import glob
import json
import os
import subprocess
import sys

VERIF = os.path.dirname(os.path.dirname(os.path.abspath(__file__)))
rows = []
missed = 0
for d in sorted(glob.glob(os.path.join(VERIF, 'seeded', 'C*'))):
    if not os.path.isdir(d):
        continue
    name = os.path.basename(d)
    prop = name[:3]
    r = subprocess.run([os.path.join(VERIF, 'selftest/sensitivity.py'),
                        os.path.join(d, 'patch.diff'), prop],
                       capture_output=True, text=True)
    lines = r.stdout.strip().splitlines()
    caught = [ln.split(':', 1)[1].split() for ln in lines
              if ln.startswith('CAUGHT-BY')]
    caught = caught[0] if caught else ['?']
    first = next((ln[:300] for ln in lines if 'VIOLATION' in ln), None)
    meta = json.load(open(os.path.join(d, 'meta.json')))
    rows.append({'change': name, 'property': prop,
                 'summary': meta.get('summary'),
                 'caught_by': [] if caught == ['none'] else caught,
                 'first_violation': first})
    if caught == ['none'] or caught == ['?']:
        missed += 1
    print(name, caught)
    sys.stdout.flush()
json.dump(rows, open(os.path.join(VERIF, 'seeded', 'SUMMARY.json'), 'w'),
          indent=1)
print('seeded changes: %d, missed: %d' % (len(rows), missed))
sys.exit(1 if missed else 0)
