#!/venv/bin/python
"""sensitivity.py <patch.diff> [props...] [--tier quick|thorough] [--runs N]

Copies /repo's working tree to a scratch directory outside /repo and /verif,
applies the patch there, runs the named properties' checks against the copy
(VERIF_REPO) and reports which of them raise a VIOLATION.  The copy is removed
afterwards.  With no property given, every claimed property is run."""
import json
import os
import shutil
import subprocess
import sys
import tempfile
import time

VERIF = os.path.dirname(os.path.dirname(os.path.abspath(__file__)))
ALL = ['C01', 'C02', 'C03', 'C04', 'C05', 'C06', 'C07', 'C08', 'C09', 'C10',
       'C11', 'C12', 'C13', 'C14', 'C15', 'C16', 'C18', 'C19', 'C20']


def main():
    args = sys.argv[1:]
    tier = 'quick'
    runs = None
    for flag in ('--tier', '--runs'):
        if flag in args:
            i = args.index(flag)
            val = args[i + 1]
            del args[i:i + 2]
            if flag == '--tier':
                tier = val
            else:
                runs = val
    patch = os.path.abspath(args[0])
    props = args[1:] or ALL
    scratch = tempfile.mkdtemp(prefix='verif-mut-')
    copy = os.path.join(scratch, 'repo')
    try:
        subprocess.check_call(['rsync', '-a', '--exclude', '.git',
                               '--exclude', 'bench_tables', '/repo/',
                               copy + '/'])
        r = subprocess.run(['patch', '-p1', '-s', '-i', patch], cwd=copy,
                           capture_output=True, text=True)
        if r.returncode != 0:
            print('PATCH-FAILED', r.stdout[-500:], r.stderr[-500:])
            return 3
        caught = []
        for p in props:
            env = dict(os.environ, VERIF_REPO=copy)
            env.pop('VERIF_NO_REEXEC', None)
            cmd = ['/venv/bin/python', os.path.join(VERIF, 'bin', 'check.py'),
                   p, '--tier', tier, '--no-evidence']
            if runs:
                cmd += ['--runs', runs]
            t0 = time.time()
            r = subprocess.run(cmd, env=env, capture_output=True, text=True)
            lines = [ln for ln in r.stdout.splitlines()
                     if ln.startswith('VIOLATION') or ln.startswith('  oracle')
                     or ln.startswith('HARNESS')]
            print('%s exit=%d %.0fs %s' % (p, r.returncode, time.time() - t0,
                                           ' | '.join(lines[:2])[:400]))
            sys.stdout.flush()
            if r.returncode == 1:
                caught.append(p)
        print('CAUGHT-BY: %s' % (' '.join(caught) or 'none'))
        return 0 if caught else 1
    finally:
        shutil.rmtree(scratch, ignore_errors=True)


if __name__ == '__main__':
    sys.exit(main())
