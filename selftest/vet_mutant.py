#!/venv/bin/python
"""vet_mutant.py <mutant_dir> [props...]: confirm a candidate seeded change
(patch.diff, demo.py, meta.json): in a scratch copy of /repo the demo passes
without the patch; with the patch the repository's whole test suite still
passes and the demo fails; then run our checks against it."""
import json
import os
import shutil
import subprocess
import sys
import tempfile

VERIF = os.path.dirname(os.path.dirname(os.path.abspath(__file__)))


def sh(cmd, cwd, timeout=1800):
    return subprocess.run(cmd, cwd=cwd, capture_output=True, text=True,
                          timeout=timeout)


def main():
    d = os.path.abspath(sys.argv[1])
    props = sys.argv[2:]
    meta = json.load(open(os.path.join(d, 'meta.json')))
    props = props or [meta['property'][:3]]
    scratch = tempfile.mkdtemp(prefix='verif-vet-')
    copy = os.path.join(scratch, 'repo')
    res = {'dir': d}
    try:
        subprocess.check_call(['rsync', '-a', '--exclude', '.git',
                               '--exclude', 'bench_tables', '/repo/',
                               copy + '/'])
        demo = os.path.join(d, 'demo.py')
        r = sh(['/venv/bin/python', demo], copy, 600)
        res['demo_clean_exit'] = r.returncode
        r = sh(['patch', '-p1', '-s', '-i', os.path.join(d, 'patch.diff')],
               copy)
        res['patch_applies'] = r.returncode == 0
        if not res['patch_applies']:
            res['patch_err'] = (r.stdout + r.stderr)[-400:]
            print(json.dumps(res, indent=1))
            return 2
        r = sh(['/venv/bin/python', '-m', 'pytest', '-q', '-p',
                'no:cacheprovider', '--timeout=900', '-q'], copy, 3000)
        tail = r.stdout.strip().splitlines()[-1] if r.stdout.strip() else ''
        res['suite_exit'] = r.returncode
        res['suite_tail'] = tail
        res['suite_failed'] = [ln for ln in r.stdout.splitlines()
                               if ln.startswith('FAILED')][:5]
        r = sh(['/venv/bin/python', demo], copy, 600)
        res['demo_mutant_exit'] = r.returncode
        res['demo_mutant_out'] = (r.stdout + r.stderr)[-300:]
        res['confirmed'] = (res['demo_clean_exit'] == 0 and
                            res['suite_exit'] == 0 and
                            res['demo_mutant_exit'] != 0)
    finally:
        shutil.rmtree(scratch, ignore_errors=True)
    if res['confirmed']:
        r = subprocess.run([os.path.join(VERIF, 'selftest/sensitivity.py'),
                            os.path.join(d, 'patch.diff')] + props,
                           capture_output=True, text=True)
        res['checks'] = r.stdout.strip().splitlines()
        res['caught'] = r.returncode == 0
    print(json.dumps(res, indent=1))
    with open(os.path.join(d, 'vet.json'), 'w') as f:
        json.dump(res, f, indent=1)
    return 0


if __name__ == '__main__':
    sys.exit(main())
