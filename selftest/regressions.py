#!/venv/bin/python
"""Every repaired defect must be reported again if it returns: apply the
reverse of each fix: commit to a scratch copy and expect the owning property's
quick check to raise a VIOLATION."""
import json
import os
import subprocess
import sys

VERIF = os.path.dirname(os.path.dirname(os.path.abspath(__file__)))
idx = json.load(open(os.path.join(VERIF, 'selftest/mutants/reverts.json')))
only = sys.argv[1:]
missed = 0
for e in idx:
    if only and not any(o in e['patch'] for o in only):
        continue
    r = subprocess.run([os.path.join(VERIF, 'selftest/sensitivity.py'),
                        os.path.join(VERIF, e['patch'])] + e['properties'],
                       capture_output=True, text=True)
    last = [ln for ln in r.stdout.splitlines() if ln.startswith('CAUGHT-BY')]
    print(e['patch'].split('/')[-1], e['properties'], (last or [r.stdout[-300:]])[0])
    sys.stdout.flush()
    if r.returncode != 0:
        missed += 1
        print(r.stdout[-600:])
print('regressions: %d missed' % missed)
sys.exit(1 if missed else 0)
