#!/venv/bin/python
"""cross_check.py <seeded name> <prop> [<prop> ...] [--tier thorough]: run
other properties' checks (or a deeper tier) against an archived seeded change
whose own quick check does not fire, and record the outcome in its meta.json
(`caught_by`, `caught_note`)."""
import json
import os
import subprocess
import sys

VERIF = os.path.dirname(os.path.dirname(os.path.abspath(__file__)))
args = sys.argv[1:]
tier = 'quick'
if '--tier' in args:
    i = args.index('--tier')
    tier = args[i + 1]
    del args[i:i + 2]
name, props = args[0], args[1:]
d = os.path.join(VERIF, 'seeded', name)
cmd = [os.path.join(VERIF, 'selftest/sensitivity.py'),
       os.path.join(d, 'patch.diff')] + props
if tier != 'quick':
    cmd += ['--tier', tier]
r = subprocess.run(cmd, capture_output=True, text=True)
lines = r.stdout.strip().splitlines()
caught = [ln.split(':', 1)[1].split() for ln in lines
          if ln.startswith('CAUGHT-BY')][0]
caught = [] if caught == ['none'] else caught
meta = json.load(open(os.path.join(d, 'meta.json')))
if caught:
    meta['caught_by'] = sorted(set(meta.get('caught_by', [])) | set(caught))
    own = meta['property'][:3]
    meta['caught_note'] = (
        'caught at the %s tier' % tier if caught == [own] else
        'the clause this change breaks belongs to %s (the %s check alone '
        'stays quiet): run at the %s tier' % (', '.join(caught), own, tier))
    meta['first_violation'] = next((ln[:400] for ln in lines
                                    if 'VIOLATION' in ln), None)
json.dump(meta, open(os.path.join(d, 'meta.json'), 'w'), indent=1)
print(name, tier, 'caught by', caught)
