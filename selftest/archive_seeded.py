#!/venv/bin/python
"""Copy vetted sub-agent mutants from /tmp/wt/<P>_out/m<i> to
/verif/seeded/<P>-m<i>/ and (re)run the owning property's quick check against
each, recording the result in meta.json."""
import glob
import json
import os
import shutil
import subprocess
import sys

VERIF = os.path.dirname(os.path.dirname(os.path.abspath(__file__)))
src_dirs = sorted(glob.glob('/tmp/wt/C*_out/m*'))
only = sys.argv[1:]
for d in src_dirs:
    base = os.path.basename(os.path.dirname(d)).split('_')[0]
    prop = base[:3]
    rnd = {'b': 'r2', 'c': 'r3', 'd': 'r4', 'e': 'r5', 'f': 'r6', 'g': 'r7'}.get(base[3:], '')
    name = '%s-%s%s' % (prop, rnd, os.path.basename(d))
    if only and name not in only:
        continue
    vet = os.path.join(d, 'vet.json')
    if not os.path.exists(vet):
        print(name, 'not vetted, skipped')
        continue
    v = json.load(open(vet))
    if not v.get('confirmed'):
        print(name, 'NOT confirmed, skipped')
        continue
    dst = os.path.join(VERIF, 'seeded', name)
    if os.path.exists(os.path.join(dst, 'meta.json')) and not only:
        continue
    os.makedirs(dst, exist_ok=True)
    for f in ('patch.diff', 'demo.py'):
        shutil.copy(os.path.join(d, f), os.path.join(dst, f))
    meta = json.load(open(os.path.join(d, 'meta.json')))
    r = subprocess.run([os.path.join(VERIF, 'selftest/sensitivity.py'),
                        os.path.join(dst, 'patch.diff'), prop],
                       capture_output=True, text=True)
    lines = r.stdout.strip().splitlines()
    meta.update({
        'origin': 'independent sub-agent given only the property text and a '
                  'scratch worktree',
        'confirmed_by_me': {
            'how': 'selftest/vet_mutant.py: scratch copy of /repo; demo.py '
                   'exits 0 unpatched; with patch.diff applied the whole '
                   'repository test suite passes and demo.py exits non-zero',
            'demo_clean_exit': v['demo_clean_exit'],
            'suite_exit_with_patch': v['suite_exit'],
            'demo_mutant_exit': v['demo_mutant_exit']},
        'checks_run': 'selftest/sensitivity.py seeded/%s/patch.diff %s '
                      '(quick tier, VERIF_SEED default)' % (name, prop),
        'caught_by': [ln.split(':', 1)[1].split() for ln in lines
                      if ln.startswith('CAUGHT-BY')][0],
        'first_violation': next((ln[:400] for ln in lines
                                 if 'VIOLATION' in ln), None),
    })
    if meta['caught_by'] == ['none']:
        meta['caught_by'] = []
    json.dump(meta, open(os.path.join(dst, 'meta.json'), 'w'), indent=1)
    print(name, 'caught by', meta['caught_by'])
    sys.stdout.flush()
