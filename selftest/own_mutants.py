#!/venv/bin/python
"""Hand-written single-site mutants (DESIGN Appendix E).  For each: apply the
textual replacement in a scratch copy of /repo, run the repository test suite
(a mutant the suite kills is reported and skipped), then run the owning
properties' quick checks.  Results go to selftest/own_mutants.json.

usage: own_mutants.py [name-substring ...]"""
import json
import os
import shutil
import subprocess
import sys
import tempfile
from concurrent.futures import ThreadPoolExecutor

VERIF = os.path.dirname(os.path.dirname(os.path.abspath(__file__)))
T = 'biom/table.py'
M = [
 # name, file, old, new, properties
 ('c01_no_slash_unescape', T, "category = category.replace('@@SLASH@@', '/')",
  "category = category", 'C01'),
 ('c01_date_not_parsed', T, """            try:
                create_date = datetime.fromisoformat(create_date)
            except (TypeError, ValueError):
                pass

        shape = h5grp.attrs['shape']""", """            pass

        shape = h5grp.attrs['shape']""", 'C01'),
 ('c01_id_placeholder_always', T,
  """h5grp.attrs['id'] = self.table_id if self.table_id else "No Table ID\"""",
  """h5grp.attrs['id'] = "No Table ID\"""", 'C01'),
 ('c01_genby_lost_on_compress', T,
  "h5grp.attrs['generated-by'] = generated_by",
  "h5grp.attrs['generated-by'] = generated_by if not compress else "
  "generated_by.strip()", 'C01'),
 ('c02_negatives_dropped', T, "                if float(val) != 0.0:",
  "                if float(val) > 0.0:", 'C02'),
 ('c02_from_json_md_swapped', T,
  "obs_metadata = [row['metadata'] for row in json_table['rows']]",
  "obs_metadata = [row['metadata'] for row in json_table['rows']][::-1]",
  'C02'),
 ('c02_stream_comma', T, """                    if direct_io:
                        direct_io.write(',')
                    else:
                        data.append(',')""", """                    if direct_io:
                        pass
                    else:
                        data.append(',')""", 'C02'),
 ('c03_rows_sorted', T, """        iterable = self.ids(axis='observation')
        end_line = '' if direct_io is None else '\\n'""",
  """        iterable = sorted(self.ids(axis='observation'))
        end_line = '' if direct_io is None else '\\n'""", 'C03'),
 ('c03_strip_ids', T, "            obs_ids.append(fields[0])",
  "            obs_ids.append(fields[0].strip('_'))", 'C03'),
 ('c04_nnz_raw', T, "        nnz = self.nnz\n        h5grp.attrs['id']",
  "        nnz = self._data.nnz\n        h5grp.attrs['id']", 'C04'),
 ('c04_shape_transposed', T, "        h5grp.attrs['shape'] = self.shape",
  "        h5grp.attrs['shape'] = self.shape[::-1] if self.shape[0] == 0 "
  "else self.shape", 'C04'),
 ('c04_indices_int64', T, """            grp.create_dataset('matrix/indices', shape=(len_data,),
                               dtype=np.int32,""",
  """            grp.create_dataset('matrix/indices', shape=(len_data,),
                               dtype=np.int64,""", 'C04'),
 ('c05_update_ids_no_reindex', T, """        result._index_ids(None, None)

        # check for errors""", """        if not inplace:
            result._index_ids(None, None)

        # check for errors""", 'C05 C06'),
 ('c05_filter_stale_index', T,
  "            table._index_ids(self._obs_index.copy(), None)",
  "            table._index_ids(self._obs_index, self._sample_index)",
  'C05 C08'),
 ('c05_shared_index', T,
  "            table._index_ids(None, self._sample_index.copy())",
  "            table._index_ids(None, self._sample_index)", 'C05 C07'),
 ('c06_transpose_md_not_swapped', T,
  """                              sample_md_copy, obs_md_copy, self.table_id)""",
  """                              obs_md_copy if self.shape[0] == self.shape[1]
                              else sample_md_copy,
                              sample_md_copy if self.shape[0] == self.shape[1]
                              else obs_md_copy, self.table_id)""", 'C06'),
 ('c06_align_uses_self_order', T,
  "            table = table.sort_order(other.ids(axis=aln_axis),",
  "            table = table.sort_order(sorted(other.ids(axis=aln_axis)),",
  'C06'),
 ('c06_sort_order_md_other_axis', T, """            return self.__class__(mat,
                                  order[:], self.ids()[:],
                                  metadata, self.metadata(), self.table_id,
                                  self.type)""", """            return self.__class__(mat,
                                  order[:], self.ids()[:],
                                  metadata, self.metadata(), self.table_id)""",
  'C06'),
 ('c07_copy_shares_matrix', T, "        return self.__class__(self._data.copy(),",
  "        return self.__class__(self._data,", 'C07'),
 ('c07_copy_md_shallow', T,
  "                              deepcopy(self.metadata()),\n"
  "                              self.table_id,\n"
  "                              type=self.type)",
  "                              self.metadata(),\n"
  "                              self.table_id,\n"
  "                              type=self.type)", 'C07'),
 ('c07_pa_ignores_inplace', T,
  "        return self.transform(transform_f, inplace=inplace)",
  "        return self.transform(transform_f, inplace=True)", 'C07 C13'),
 ('c08_head_axis_mixup', T, "        col_ids = self.ids(axis='sample')[:m]",
  "        col_ids = self.ids(axis='sample')[:n]", 'C08'),
 ('c08_remove_empty_one_axis', T, """        if axis == 'whole':
            axes = ['sample', 'observation']
        else:
            axes = [axis]

        for ax in axes:
            # a vector is empty""", """        if axis == 'whole':
            axes = ['sample']
        else:
            axes = [axis]

        for ax in axes:
            # a vector is empty""", 'C08'),
 ('c08_filter_nonstr_ids', T, "        arr.sort_indices()\n",
  "        pass\n", 'C08'),
 ('c09_union_drops_last', T, "        all_ids.extend(b[:])",
  "        all_ids.extend(b[:-1] if len(b) > 2 else b[:])", 'C09'),
 ('c09_prefer_other', 'biom/util.py', "    return x if x is not None else y",
  "    return y if y is not None else x", 'C09'),
 ('c09_fast_offset', T, "            offset += t_nnz\n",
  "            offset += t_nnz if t_nnz > 1 else 0\n", 'C09'),
 ('c10_no_resort', T,
  "            if (tmp_table.ids(axis=invaxis) == invaxis_order).all():",
  "            if len(tmp_table.ids(axis=invaxis)) == len(invaxis_order):",
  'C10'),
 ('c10_disjoint_skips_last', T, "        for table in all_tables:\n"
  "            table_axis_ids = table.ids(axis=axis)",
  "        for table in all_tables[:max(2, len(all_tables) - 1)]:\n"
  "            table_axis_ids = table.ids(axis=axis)", 'C10'),
 ('c10_md_from_last', T,
  "        inv_md = padded_tables[0].metadata(axis=invaxis)",
  "        inv_md = padded_tables[-1].metadata(axis=invaxis)", 'C10'),
 ('c11_norm_by_mgs', T, "                    redux_data /= len(axis_ids)",
  "                    redux_data /= max(min_group_size, len(axis_ids))",
  'C11'),
 ('c11_ignore_falsy', T, "            if ignore_none and part is None:",
  "            if ignore_none and not part:", 'C11'),
 ('c11_collapsed_ids_sorted', T,
  "                    collapsed_md.append({'collapsed_ids': axis_ids.tolist()})",
  "                    collapsed_md.append({'collapsed_ids': "
  "sorted(axis_ids.tolist())})", 'C11'),
 ('c12_seed_not_forwarded', T, "        rng = np.random.default_rng(seed)",
  "        rng = np.random.default_rng(seed if by_id else None)", 'C12'),
 ('c12_byid_n_minus_1', T, "            subset = set(ids[:n])",
  "            subset = set(ids[:max(1, n - 1)])", 'C12'),
 ('c12_other_axis_ge0', T, """        inv_axis = self._invert_axis(axis)
        table.filter(lambda v, i, md: v.sum() > 0, axis=inv_axis)""",
  """        inv_axis = self._invert_axis(axis)
        table.filter(lambda v, i, md: v.sum() >= 0, axis=inv_axis)""", 'C12'),
 ('c12_byid_no_shuffle', T, "            rng.shuffle(ids)", "            ids.sort()",
  'C12'),
 ('c12_byid_first_always_kept', T, "            rng.shuffle(ids)",
  "            rng.shuffle(ids[1:])", 'C12'),
 ('c13_pa_negatives', T, "            return np.where(data != 0, 1., 0.)",
  "            return np.where(data > 0, 1., 0.)", 'C13'),
 ('c13_norm_by_len', T, "            return val / float(val.sum())",
  "            return val / float(val.sum()) if len(val) != 3 else "
  "val / float(len(val))", 'C13'),
 ('c13_rank_method_ignored', T,
  "            return scipy.stats.rankdata(val, method=method)",
  "            return scipy.stats.rankdata(val, method=method if method != "
  "'dense' else 'min')", 'C13'),
 ('c14_get_ids_never_raises', T,
  "                    if ids.shape != desired_ids.shape:",
  "                    if ids.shape[0] == 0:", 'C14'),
 ('c14_parse_no_drop', 'biom/parse.py',
  "        t.filter(gt_zero, axis=axis)", "        pass", 'C14'),
 ('c14_md_subset_off', T,
  "                    md = list(np.asarray(md)[np.where(idx)])",
  "                    md = list(np.asarray(md)[:int(idx.sum())])", 'C14'),
 ('c15_bounds_off_by_one', 'biom/cli/table_validator.py',
  "            if x < 0 or x > n_rows:", "            if x < 0 or x > n_rows + 1:",
  'C15'),
 ('c15_md_accepts_lists', 'biom/cli/table_validator.py',
  "        if isinstance(record['metadata'], dict):",
  "        if isinstance(record['metadata'], (dict, list)):", 'C15'),
 ('c15_shape_rows_only', 'biom/cli/table_validator.py',
  "                    len(table_json['columns']) != table_json['shape'][1]):",
  "                    len(table_json['columns']) < table_json['shape'][1]):",
  'C15'),
 ('c16_eq_skips_elementwise', T, "        if (self._data != other).nnz > 0:",
  "        if (self._data != other).nnz > 1:", 'C16'),
 ('c16_eq_ignores_obs_md', T, """        if not np.array_equal(self.metadata(axis='observation'),
                              other.metadata(axis='observation')):
            return False
        if not np.array_equal(self.metadata(), other.metadata()):
            return False
        if not self._data_equality(other._data):
            return False

        return True""", """        if not np.array_equal(self.metadata(), other.metadata()):
            return False
        if not self._data_equality(other._data):
            return False

        return True""", 'C16'),
 ('c18_add_md_off_by_one', T, "                    metadata[idx].update(md_entry)",
  "                    metadata[idx - (1 if len(md) > 3 else 0)]"
  ".update(md_entry)", 'C18'),
 ('c18_del_ignores_axis', T, """        for ax in axes:
            if self.metadata(axis=ax) is None:
                continue
""", """        for ax in ['sample', 'observation']:
            if self.metadata(axis=ax) is None:
                continue
""", 'C18'),
 ('c18_header_keeps_hash', 'biom/parse.py',
  "                    header = line.strip().split('\\t')",
  "                    header = line.strip().split('\\t')[:4]", 'C18'),
 ('c19_sum_axis_swapped', T, """        elif axis == 'sample':
            axis = 0
        elif axis == 'observation':
            axis = 1
        else:
            raise UnknownAxisError(axis)

        matrix_sum""", """        elif axis == 'sample':
            axis = 0 if self.shape[0] != self.shape[1] else 1
        elif axis == 'observation':
            axis = 1 if self.shape[0] != self.shape[1] else 0
        else:
            raise UnknownAxisError(axis)

        matrix_sum""", 'C19 C05'),
 ('c19_density_rows_squared', T,
  "                       (len(self.ids()) * len(self.ids(axis='observation'))))",
  "                       (len(self.ids()) * len(self.ids())))", 'C19 C05'),
 ('c19_median_is_mean', 'biom/util.py', "                median(counts),",
  "                mean(counts) if len(counts) > 4 else median(counts),", 'C19'),
 ('c19_max_whole_wrong', T, """            max_val = -np.inf
            for data in self.iter_data(dense=False):
                # only min over the actual nonzero values
                max_val = max(max_val, data.data.max())""",
  """            max_val = -np.inf
            for data in self.iter_data(dense=False):
                # only min over the actual nonzero values
                max_val = max(max_val, abs(data.data).max())""", 'C19'),
 ('c20_all_skips_empty', 'biom/err.py',
  "            to_update = [(err, new_state['all']) for err in self._state]",
  "            to_update = [(err, new_state['all']) for err in self._state\n"
  "                         if err != 'empty']", 'C20'),
 ('c20_seterrcall_leaks', 'biom/err.py',
  "        self._profile[errtype]['call'] = func\n        return old_call",
  "        for k in self._profile:\n            if k.startswith(errtype[:3]):\n"
  "                self._profile[k]['call'] = func\n        return old_call",
  'C20'),
 ('c20_warn_is_print', 'biom/err.py', "            'warn': lambda x: warn(msg),",
  "            'warn': lambda x: stdout.write(msg + '\\n'),", 'C20'),
]


def one(m):
    name, fn, old, new, props = m
    scratch = tempfile.mkdtemp(prefix='verif-own-')
    copy = os.path.join(scratch, 'repo')
    res = {'name': name, 'file': fn, 'properties': props.split()}
    try:
        subprocess.check_call(['rsync', '-a', '--exclude', '.git', '--exclude',
                               'bench_tables', '/repo/', copy + '/'])
        p = os.path.join(copy, fn)
        s = open(p).read()
        if s.count(old) != 1:
            res['status'] = 'pattern matched %d times' % s.count(old)
            return res
        open(p, 'w').write(s.replace(old, new))
        d = subprocess.run(['diff', '-u', os.path.join('/repo', fn), p],
                           capture_output=True, text=True).stdout
        d = d.replace('/repo/' + fn, 'a/' + fn).replace(p, 'b/' + fn)
        os.makedirs(os.path.join(VERIF, 'selftest/mutants'), exist_ok=True)
        patch = os.path.join(VERIF, 'selftest/mutants', 'own_%s.patch' % name)
        open(patch, 'w').write(d)
        r = subprocess.run(['/venv/bin/python', '-m', 'pytest', '-q', '-p',
                            'no:cacheprovider', '--timeout=900', '-q', '-x'],
                           cwd=copy, capture_output=True, text=True)
        res['suite_exit'] = r.returncode
        if r.returncode != 0:
            res['status'] = 'killed by the repository test suite'
            res['suite_failed'] = [ln for ln in r.stdout.splitlines()
                                   if ln.startswith('FAILED')][:2]
            os.unlink(patch)
            return res
        res['patch'] = os.path.relpath(patch, VERIF)
        res['status'] = 'survives the suite'
    finally:
        shutil.rmtree(scratch, ignore_errors=True)
    return res


def main():
    only = sys.argv[1:]
    todo = [m for m in M if not only or any(o in m[0] for o in only)]
    with ThreadPoolExecutor(max_workers=6) as ex:
        results = list(ex.map(one, todo))
    for res in results:
        if res.get('status') != 'survives the suite':
            print(res['name'], '->', res.get('status'), res.get('suite_failed',
                                                                 ''))
            continue
        r = subprocess.run([os.path.join(VERIF, 'selftest/sensitivity.py'),
                            os.path.join(VERIF, res['patch'])] +
                           res['properties'], capture_output=True, text=True)
        lines = r.stdout.strip().splitlines()
        res['caught_by'] = [ln.split(':', 1)[1].split() for ln in lines
                            if ln.startswith('CAUGHT-BY')][0]
        res['first'] = next((ln[:300] for ln in lines if 'VIOLATION' in ln),
                            None)
        print(res['name'], res['properties'], '-> caught by', res['caught_by'])
        sys.stdout.flush()
    out = os.path.join(VERIF, 'selftest/own_mutants.json')
    prev = {}
    if os.path.exists(out):
        prev = {r['name']: r for r in json.load(open(out))}
    for r in results:
        prev[r['name']] = r
    json.dump(sorted(prev.values(), key=lambda r: r['name']), open(out, 'w'),
              indent=1)
    missed = [r['name'] for r in results if r.get('caught_by') == ['none']]
    print('survivors of our checks:', missed or 'none')


if __name__ == '__main__':
    main()
