"""Probes for C12 (unbiasedness), C13 (axis agreement, normalize-table),
C16 (twins, near misses, exports), C18 (mapping files), C19 (reports, CLI).
DESIGN 6."""
import contextlib
import copy
import io
import itertools
import json
import math
import os

import numpy as np

from . import callbacks as CB
from . import values as V
from . import store, spec_h5
from .build import build_table, ROUTES
from .model import Ref, AXNAME, canon_md, plain
from .observe import Snap, diff_ref, md_equal, coherence
from .probes import probe
from .probes_text import tsv_safe_id


# ===================================================================== C12 ==
def _comb(n, k):
    return math.comb(n, k) if 0 <= k <= n else 0


def _hyper_law(counts, n):
    """{outcome tuple: probability} of drawing n units without replacement"""
    tot = sum(counts)
    law = {}
    for ks in itertools.product(*[range(c + 1) for c in counts]):
        if sum(ks) == n:
            p = 1.0
            for c, k in zip(counts, ks):
                p *= _comb(c, k)
            law[ks] = p / _comb(tot, n)
    return law


def _multi_law(counts, n):
    tot = float(sum(counts))
    law = {}
    for ks in itertools.product(*[range(n + 1) for _ in counts]):
        if sum(ks) == n:
            p = math.factorial(n)
            for c, k in zip(counts, ks):
                p = p * (c / tot) ** k / math.factorial(k)
            if p > 0:
                law[ks] = p
    return law


C12_CASES = [([2, 1, 1], 2), ([3, 1], 2), ([1, 1, 1, 1], 2), ([2, 2], 3),
             ([4, 1, 0, 1], 3), ([5], 2), ([1, 2, 3], 3)]


@probe('c12_dist')
def c12_dist(w, ev, slot):
    from biom import Table
    a, b, salt = ev.get('a', 0), ev.get('b', 0), ev.get('salt', 0)
    S = 4000 if w.cfg.get('tier') == 'thorough' else 400
    ax = a & 1
    mode = (a >> 1) % 3            # 0 without, 1 with replacement, 2 by_id
    counts, n = C12_CASES[b % len(C12_CASES)]
    k = len(counts)
    vec_ids = ['u%d' % i for i in range(k)]
    w.case('c12.distribution', ('without', 'with', 'by_id')[mode], None,
           ax=ax, case=b % len(C12_CASES))
    freq = {}
    if mode == 2:
        ids = ['a', 'b', 'c', 'd']
        m = np.array([[1.0, 2.0, 3.0, 4.0], [1.0, 1.0, 1.0, 1.0]])
        if ax == 1:
            t = Table(m, ['o1', 'o2'], ids)
        else:
            t = Table(m.T, ids, ['s1', 's2'])
        for i in range(S):
            r = t.subsample(2, axis=AXNAME[ax], by_id=True,
                            seed=salt * 100000 + i)
            key = tuple(str(x) for x in r.ids(axis=AXNAME[ax]))
            freq[key] = freq.get(key, 0) + 1
        law = {c: 1 / 6.0 for c in itertools.combinations(ids, 2)}
    else:
        col = np.array(counts, dtype=float)
        # a second vector keeps the table two-dimensional and must not
        # influence the first
        other = np.array([n + 1] + [0] * (k - 1), dtype=float)
        m = np.stack([col, other], axis=1)
        if ax == 1:
            t = Table(m, vec_ids, ['s', 'z'])
        else:
            t = Table(m.T, ['s', 'z'], vec_ids)
        for i in range(S):
            r = t.subsample(n, axis=AXNAME[ax], with_replacement=mode == 1,
                            seed=salt * 100000 + i)
            rid = [str(x) for x in r.ids(axis=AXNAME[1 - ax])]
            if 's' in [str(x) for x in r.ids(axis=AXNAME[ax])]:
                v = r.data('s', axis=AXNAME[ax])
            else:
                v = np.zeros(len(rid))
            got = dict(zip(rid, v))
            key = tuple(int(got.get(u, 0)) for u in vec_ids)
            freq[key] = freq.get(key, 0) + 1
        law = _multi_law(counts, n) if mode == 1 else _hyper_law(counts, n)
    for key, cnt in freq.items():
        if key not in law:
            w.fail('c12.distribution', 'outcome %r is impossible for counts '
                   '%r, n=%d (%s)' % (key, counts, n,
                                      ('without', 'with', 'by_id')[mode]))
    from scipy.stats import binom
    for key, p in law.items():
        k = freq.get(key, 0)
        # exact two-sided binomial tail; a cell is flagged only below 1e-12
        # (a normal approximation is far too optimistic for rare outcomes)
        tail = min(binom.cdf(k, S, p), binom.sf(k - 1, S, p))
        if tail < 1e-12:
            w.fail('c12.distribution', 'outcome %r occurred %d times in %d '
                   'seeds, exact probability %.4f (binomial tail %.1e); '
                   'counts %r n=%d mode=%s axis=%s'
                   % (key, k, S, p, tail, counts, n,
                      ('without', 'with', 'by_id')[mode], AXNAME[ax]))
    w.stats['c12.seeds_drawn'] += S
    return 'c12_dist:ok'


# ===================================================================== C13 ==
@probe('c13_axis')
def c13_axis(w, ev, slot):
    ref, t = slot.ref, slot.real
    fam = [0, 1, 2, 3, 6, 7][ev.get('a', 0) % 6]     # element-wise families
    salt = ev.get('b', 0)
    w.case('c13.axis_agree', 'transform', slot, fam=fam)
    outs = []
    for ax in (0, 1):
        rec = CB.Recorder(None)
        outs.append(Snap(t.transform(CB.make_trans(fam, salt, rec),
                                     axis=AXNAME[ax], inplace=False)))
    if outs[0].ids != outs[1].ids or not np.array_equal(outs[0].m, outs[1].m):
        w.fail('c13.axis_agree', 'element-wise function gives different '
               'tables along the two axes: %r vs %r'
               % (outs[0].m.tolist(), outs[1].m.tolist()))
    with np.errstate(all='ignore'):
        want = np.where(ref.m != 0, CB.trans_rule(fam, salt, ref.m.ravel())
                        .reshape(ref.m.shape), 0.0) + 0.0
    if np.isfinite(want).all() and not np.array_equal(outs[0].m, want):
        w.fail('c13.axis_agree', 'element-wise transform result %r, expected '
               '%r' % (outs[0].m.tolist(), want.tolist()))
    w.expect_unchanged(slot, 'c13.receiver_changed', 'transform')
    return 'c13_axis:ok'


@probe('c13_cli')
def c13_cli(w, ev, slot):
    from biom.cli.table_normalizer import _normalize_table
    ref, t = slot.ref, slot.real
    ax = ev.get('a', 0) & 1
    pa = bool(ev.get('b', 0) & 1)
    if not pa and (ref.m < 0).any():
        return 'skip:negative'
    via_cmd = bool(ev.get('c', 0) & 1)
    w.case('c13.cli', 'normalize-table', slot, ax=ax, pa=pa, cmd=via_cmd)
    tc = t.copy()
    if via_cmd:
        # the click command itself: file in, HDF5 file out
        import datetime
        import biom
        from biom.cli.table_normalizer import normalize_table as cmd
        tc.del_metadata()
        inp = store.new_path(w, '.json.biom')
        outp = store.new_path(w, '.norm.biom')
        with open(inp, 'w', encoding='utf8') as f:
            f.write(tc.to_json('c13', creation_date=datetime.datetime(
                2020, 1, 1)))
        try:
            cmd.callback(inp, outp, not pa, pa, AXNAME[ax])
            out = biom.load_table(outp)
        except Exception as e:  # noqa
            w.fail('c13.cli', 'biom normalize-table raised %r' % (e,))
        finally:
            for pth in (inp, outp):
                if os.path.exists(pth):
                    os.unlink(pth)
        w.stats['c13.cli_command'] += 1
    else:
        out = _normalize_table(tc, relative_abund=not pa,
                               presence_absence=pa, axis=AXNAME[ax])
    s = Snap(out)
    if pa:
        want = (ref.m != 0).astype(float)
        ok = np.array_equal(s.m, want)
    else:
        with np.errstate(all='ignore'):
            tot = ref.m.sum(axis=1 - ax, keepdims=True)
            if not np.isfinite(tot).all() or (tot[tot != 0] < 1e-290).any():
                return 'skip:overflow'
            want = np.where(tot != 0, ref.m / np.where(tot == 0, 1, tot), 0.0)
        ok = s.m.shape == want.shape and np.allclose(s.m, want, rtol=1e-12,
                                                      atol=0)
    if not ok or s.ids != ref.ids:
        w.fail('c13.cli', 'normalize-table (%s, %s) gives %r, expected %r'
               % ('pa' if pa else 'relative', AXNAME[ax], s.m.tolist(),
                  want.tolist()))
    w.expect_unchanged(slot, 'c13.receiver_changed',
                       'normalize-table on a copy')
    return 'c13_cli:ok'


# ===================================================================== C16 ==
def _ambiguous_md(t):
    for ax in (0, 1):
        md = t.metadata(axis=AXNAME[ax])
        if md is not None and not any(md):
            return True
    return False


def _poke(t, ref, code):
    """one read accessor chosen by code (content-preserving)"""
    k = code % 10
    if k == 9:
        # a classic export naming a metadata column (present or not)
        md = ref.md[0]
        keys = sorted({kk for d in (md or []) for kk in d}) + ['no-such-key']
        try:
            t.to_tsv(header_key=keys[(code // 10) % len(keys)],
                     header_value='H', metadata_formatter=str)
        except Exception:  # noqa
            pass
    elif k == 7:
        t.sum()              # whole-table sum: scipy sorts indices in place
    elif k == 8:
        t.get_table_density()
    elif k == 0:
        t.nnz
    elif k == 1:
        t.data(ref.ids[1][code // 10 % ref.n(1)], axis='sample')
    elif k == 2:
        t.data(ref.ids[0][code // 10 % ref.n(0)], axis='observation')
    elif k == 3:
        for _ in t.iter(axis=AXNAME[(code // 10) & 1]):
            pass
    elif k == 4:
        t == t
    elif k == 5:
        list(t.nonzero())
    else:
        t.sum(axis=AXNAME[(code // 10) & 1])


def _eq3(w, a, b, what, want=True):
    forms = [('==', lambda x, y: x == y),
             ('not !=', lambda x, y: not (x != y)),
             ('descriptive_equality', lambda x, y:
              x.descriptive_equality(y) == 'Tables appear equal')]
    for name, f in forms:
        for x, y, d in ((a, b, 'a,b'), (b, a, 'b,a')):
            got = bool(f(x, y))
            if got != want:
                w.fail('c16.equality', '%s: %s(%s) says %s, content is %s'
                       % (what, name, d, 'equal' if got else 'unequal',
                          'equal' if want else 'different'))


@probe('c16_export')
def c16_export(w, ev, slot):
    import datetime
    import h5py
    ref, a = slot.ref, slot.real
    if _ambiguous_md(a):
        return 'skip:ambiguous_md'
    salt, x, y, z = (ev.get('salt', 0), ev.get('a', 0), ev.get('b', 0),
                     ev.get('c', 0))
    b = build_table(ref, x % len(ROUTES), salt % 100, y % 3)
    c = build_table(ref, (x // 3 + 7) % len(ROUTES), salt % 97, z % 3)
    w.case('c16.equality', 'twins', slot,
           routes=(ROUTES[x % len(ROUTES)], ROUTES[(x // 3 + 7) % len(ROUTES)]))
    # a PRNG-chosen interleaving of read accessors over the three tables
    sched = [(salt >> (3 * i)) % 3 for i in range(6)]
    for i, who in enumerate(sched):
        _poke((a, b, c)[who], ref, salt // (i + 1) + z + i)
        if i == 2:
            _eq3(w, a, b, 'twin built through another route (mid-schedule)')
    _eq3(w, a, b, 'a vs b')
    _eq3(w, b, c, 'b vs c')
    _eq3(w, a, c, 'a vs c (transitivity)')
    _eq3(w, a, a, 'a vs a (reflexivity)')
    _eq3(w, a, a.copy(), 'a vs a.copy()')
    # equal tables answer queries identically and export the same content
    for ax in (0, 1):
        for i in ref.ids[ax]:
            va, vb = a.data(i, axis=AXNAME[ax]), b.data(i, axis=AXNAME[ax])
            if not np.array_equal(va, vb):
                w.fail('c16.queries', 'data(%r, %s) differs between equal '
                       'tables: %r vs %r' % (i, AXNAME[ax], va.tolist(),
                                             vb.tolist()))
    if ref.m.size <= 36:
        for oi in ref.ids[0]:
            for si in ref.ids[1]:
                if a.get_value_by_ids(oi, si) != b.get_value_by_ids(oi, si):
                    w.fail('c16.queries', 'get_value_by_ids(%r, %r) differs '
                           'between equal tables' % (oi, si))
    when = datetime.datetime(2022, 2, 2, 2, 2, 2)
    which = z % 3
    w.case('c16.export', ('tsv', 'json', 'hdf5')[which], slot)
    if which == 0:
        try:
            ta, tb = a.to_tsv(), b.to_tsv()
        except Exception as e:  # noqa
            w.fail('c16.export', 'to_tsv raised %r' % (e,))
        if ta != tb:
            w.fail('c16.export', 'equal tables give different TSV text: %r '
                   'vs %r' % (ta[:300], tb[:300]))
    elif which == 1:
        ja = json.loads(a.to_json('g', creation_date=when))
        jb = json.loads(b.to_json('g', creation_date=when))
        for d in (ja, jb):
            d['data'] = sorted(map(tuple, d['data']))
        if ja != jb:
            w.fail('c16.export', 'equal tables give different JSON documents')
    else:
        from .probes_io import h5_grammar_ok, _group_md_text
        if not h5_grammar_ok(ref) or _group_md_text(a) is False:
            return 'c16:ok(nogrammar)'
        dec = []
        for t in (a, b):
            p = store.new_path(w, '.biom')
            with h5py.File(p, 'w') as f:
                t.to_hdf5(f, 'g', creation_date=when)
            probs, d = spec_h5.conformance(p)
            with h5py.File(p, 'r') as f:
                mdd = {}
                for axis in ('observation', 'sample'):
                    for cat, ds in f[axis]['metadata'].items():
                        mdd[axis + '/' + cat] = repr(ds[()].tolist())
            os.unlink(p)
            if d is None or d['dense'] is None:
                w.fail('c16.export', 'HDF5 export of one of two equal tables '
                       'is not decodable per the specification: %r'
                       % (probs[:3],))
            dec.append((d['ids'], d['dense'].tolist(), mdd))
        if dec[0] != dec[1]:
            w.fail('c16.export', 'equal tables give different HDF5 content')
    w.expect_unchanged(slot, 'c16.source_changed', 'exports')
    if z % 4 == 0:
        w.add_slot(b, ref.copy(), ev.get('dst'), tags=('twin',))
    return 'c16_export:ok'


@probe('c16_near')
def c16_near(w, ev, slot):
    """pairs differing in exactly one value / id / order / metadata entry /
    type must compare unequal"""
    ref, a = slot.ref, slot.real
    if _ambiguous_md(a):
        return 'skip:ambiguous_md'
    salt, x, y = ev.get('salt', 0), ev.get('a', 0), ev.get('b', 0)
    kind = x % 6
    r2 = ref.copy()
    if kind == 0:                                   # one value
        r, c = salt % ref.n(0), (salt // 13) % ref.n(1)
        old = r2.m[r, c]
        if old != 0 and y & 2:
            # the closest different double: equality must be exact
            r2.m[r, c] = np.nextafter(old, np.inf)
        else:
            r2.m[r, c] = 0.0 if (old != 0 and y & 1) else old + 1.0
        if r2.m[r, c] == old:
            r2.m[r, c] = old * 2 + 3.0
    elif kind == 1:                                 # one id
        ax = y & 1
        i = salt % ref.n(ax)
        r2.ids[ax][i] = V.fresh_id(w.alpha, ax, salt, set(ref.ids[ax]))
    elif kind == 2:                                 # order
        ax = y & 1
        if ref.n(ax) < 2:
            return 'skip:short_axis'
        i = salt % (ref.n(ax) - 1)
        perm = list(range(ref.n(ax)))
        perm[i], perm[i + 1] = perm[i + 1], perm[i]
        r2 = ref.take(ax, perm)
        if r2.same_content(ref):
            return 'skip:symmetric'
    elif kind == 3:                                 # one metadata entry
        ax = y & 1
        md = [dict(d) for d in r2.mdl(ax)]
        i = salt % ref.n(ax)
        if y & 4 and ref.md[ax] is not None and 'unset' not in md[i]:
            # a category present with the value None where the twin has no
            # such category (differs e.g. in the JSON document)
            md[i]['unset'] = None
        else:
            md[i]['note'] = 'changed-%d' % (salt % 7) \
                if md[i].get('note') != 'changed-%d' % (salt % 7) else 'other'
        r2.md[ax] = canon_md(md)
    elif kind == 4:                                 # type
        r2.type = 'Gene table' if ref.type != 'Gene table' else 'OTU table'
    else:                                           # zero <-> non-zero
        zs = np.argwhere(ref.m == 0)
        if len(zs) == 0:
            return 'skip:dense'
        r, c = zs[salt % len(zs)]
        r2.m[r, c] = 1.0
    if r2.same_content(ref):
        return 'skip:no_difference'
    b = build_table(r2, y % len(ROUTES), salt % 50)
    w.case('c16.near', ('value', 'id', 'order', 'metadata', 'type',
                        'zero')[kind], slot)
    if _ambiguous_md(b):
        return 'skip:ambiguous_md'
    _poke(a, ref, salt)
    _poke(b, r2, salt // 3)
    _eq3(w, a, b, 'tables differing in one %s' %
         ('value', 'id', 'order', 'metadata entry', 'type', 'cell')[kind],
         want=False)
    return 'c16_near:ok'


# ===================================================================== C18 ==
def _mapfile_text(rows, header, comments, quirks):
    """rows: list of lists of str fields (first = id)"""
    lines = []
    lines.append('#' + '\t'.join(header))
    for k, row in enumerate(rows):
        if quirks & 1 and k == 1:
            lines.append('# a comment line\twith a tab')
        if quirks & 2 and k == 0:
            lines.append('')
        if quirks & 4 and k == 2:
            lines.append('   ')
        lines.append('\t'.join(row))
    if quirks & 8:
        lines.append('#trailing comment')
    return '\n'.join(lines) + '\n'


def _ref_parse(text, header_override, process, strip_quotes=True):
    """independent parse of a mapping file as documented: header line,
    comment lines, blank lines, short rows padded with '', quotes removed
    (unless strip_quotes is off), fields stripped, per-column conversions"""
    def clean(x):
        if strip_quotes:
            x = x.replace('"', '')
        return x.strip()
    header = list(header_override) if header_override else []
    out = {}
    for line in text.split('\n'):
        line = clean(line)
        if not line:
            continue
        if line.startswith('#'):
            if not header:
                header = line[1:].strip().split('\t')
            continue
        vals = [clean(x) for x in line.split('\t')]
        if len(vals) < len(header):
            vals += [''] * (len(header) - len(vals))
        d = {}
        for k, v in zip(header[1:], vals[1:]):
            d[k] = process[k](v) if k in process else v
        out[vals[0]] = d
    return out


def _same_types(a, b):
    """equal values also of the same kind: an int column holds ints, not
    floats that compare equal"""
    if isinstance(a, dict) and isinstance(b, dict):
        return set(a) == set(b) and all(_same_types(a[k], b[k]) for k in a)
    if isinstance(a, (list, tuple)) and isinstance(b, (list, tuple)):
        return len(a) == len(b) and all(_same_types(x, y)
                                        for x, y in zip(a, b))
    if isinstance(a, bool) or isinstance(b, bool):
        return isinstance(a, bool) and isinstance(b, bool)
    if isinstance(a, (int, float)) and isinstance(b, (int, float)):
        return isinstance(a, int) == isinstance(b, int)
    return True


def _conv_int(x):
    try:
        return int(x)
    except ValueError:
        return x


def _conv_float(x):
    try:
        return float(x)
    except ValueError:
        return x


def _conv_sc(x):
    return [e.strip() for e in x.split(';')]


def _conv_pipe(x):
    return [[e.strip() for e in y.split(';')] for y in x.split('|')]


@probe('c18_mapfile')
def c18_mapfile(w, ev, slot):
    from biom.parse import MetadataMap
    from biom.cli.metadata_adder import _add_metadata
    ref = slot.ref
    salt, a, b, c = (ev.get('salt', 0), ev.get('a', 0), ev.get('b', 0),
                     ev.get('c', 0))
    ax = a & 1
    ids = [i for i in ref.ids[ax] if tsv_safe_id(i) and '"' not in i]
    sel = [i for k, i in enumerate(ids) if (salt >> k) & 1] or ids[:1]
    if not sel:
        return 'skip:no_safe_ids'
    if (a >> 1) & 1:
        # an id the table does not have: unrelated, or a longer id that has
        # an existing id as its prefix
        ghost = 'ghost-%d' % (salt % 5) if (a >> 2) & 1 else \
            max(ids, key=len) + ('0', '_rerun')[(a >> 3) & 1]
        if ghost not in ref.ids[ax]:
            sel = sel + [ghost]
    cols = ['Treatment', 'Depth', 'pH', 'taxonomy', 'Paths', 'Note'][
        :2 + b % 5]
    header = ['SampleID'] + cols
    rows = []
    for k, i in enumerate(sel):
        h = V.crc(salt, i)
        fields = {
            'Treatment': ['Control', 'Fast', '"Quoted"', 'x y'][h % 4],
            'Depth': ['12', '7', 'n/a', '003', '9007199254740993', '3.5',
                      '-5', '+7'][(h >> 2) % 8],
            'pH': ['6.5', '7', 'unknown', '1e-3', '-0.5', '+2'][(h >> 4) % 6],
            'taxonomy': ['k__A; p__B', 'k__A;p__C; g__D', 'Unassigned'][
                (h >> 6) % 3],
            'Paths': ['a;b|c;d', 'x', 'm; n | o'][(h >> 8) % 3],
            'Note': ['', 'free text', ' padded ', 'in\x0bcell break',
                     'sep\u2028inside'][(h >> 10) % 5],
        }
        row = [i] + [fields[cname] for cname in cols]
        if (h >> 12) % 5 == 0 and len(row) > 2:
            row = row[:-1]                          # a short row
        if (h >> 14) % 4 == 0:
            row[0] = '"%s"' % row[0]                # quoted id
        rows.append(row)
    text = _mapfile_text(rows, header, [], c % 16)
    process = {}
    kw = {}
    if (c >> 4) & 1 and 'Depth' in cols:
        process['Depth'] = _conv_int
        kw['int_fields'] = ['Depth']
    if (c >> 4) & 2 and 'pH' in cols:
        process['pH'] = _conv_float
        kw['float_fields'] = ['pH']
    if (c >> 4) & 4 and 'taxonomy' in cols:
        process['taxonomy'] = _conv_sc
        kw['sc_separated'] = ['taxonomy']
    if (c >> 4) & 8 and 'Paths' in cols:
        process['Paths'] = _conv_pipe
        kw['sc_pipe_separated'] = ['Paths']
    override = None
    if (a >> 2) % 4 == 0:
        # header override selecting (and renaming) the first k columns
        k = 1 + (b % len(cols))
        override = ['ID'] + ['h%d' % j for j in range(k)]
        # conversions are keyed by the overriding names
        ren = dict(zip(cols, override[1:]))
        process = {ren[kk]: v for kk, v in process.items() if kk in ren}
        for key in list(kw):
            kw[key] = [ren[x] for x in kw[key] if x in ren]
            if not kw[key]:
                del kw[key]
    want = _ref_parse(text, override, process)
    w.case('c18.mapfile', 'from_file', slot, ax=ax, quirks=c % 16,
           override=override is not None, conv=tuple(sorted(process)))
    path = store.new_path(w, '.map.tsv')
    with open(path, 'w', encoding='utf8') as f:
        f.write(text)
    # the per-column conversions a caller passes to MetadataMap.from_file are
    # the caller's functions (here: the reference ones); the command's own
    # conversion helpers are exercised through the add-metadata routes below
    libproc = dict(process)
    keep_quotes = (a >> 4) % 3 == 0
    want_direct = _ref_parse(text, override, process,
                             strip_quotes=not keep_quotes)
    # one header list and one conversion dict serve all three parses (the
    # same layout applied to several sources): neither belongs to the parser
    hdr_arg = list(override) if override else None
    proc_arg = dict(libproc)
    for label, src in (('list of lines', [ln + '\n' for ln in
                                          text.split('\n')][:-1]),
                       ('file handle', open(path, encoding='utf8')),
                       ('path', path)):
        try:
            got = MetadataMap.from_file(src, process_fns=proc_arg,
                                        header=hdr_arg,
                                        strip_quotes=not keep_quotes)
        except Exception as e:  # noqa
            w.fail('c18.mapfile', 'MetadataMap.from_file(%s) raised %r'
                   % (label, e))
        finally:
            if hasattr(src, 'close'):
                src.close()
        if dict(got) != want_direct or not _same_types(dict(got),
                                                       want_direct):
            w.fail('c18.mapfile', 'MetadataMap.from_file(%s, strip_quotes=%s) '
                   'parsed %r, the rows describe %r'
                   % (label, not keep_quotes, dict(got), want_direct))
    if hdr_arg != (list(override) if override else None) or \
            proc_arg != libproc:
        w.fail('c18.mapfile', 'MetadataMap.from_file modified the header '
               'list / conversion dict it was given: %r' % (hdr_arg,))
    _c18_command(w, ev, slot, ref, ax, path, want, override, kw)
    # apply through the add-metadata command (in place on this table)
    exp = ref.copy()
    cur = [dict(d) for d in exp.mdl(ax)]
    for k, i in enumerate(ref.ids[ax]):
        if i in want:
            cur[k].update(copy.deepcopy(want[i]))
    exp.md[ax] = canon_md(cur)
    w.drop_readers(slot)
    args = {'sample_metadata' if ax == 1 else 'observation_metadata': path}
    if override:
        args['sample_header' if ax == 1 else 'observation_header'] = \
            list(override)
    try:
        ret = _add_metadata(slot.real, **args, **kw)
    except Exception as e:  # noqa
        os.unlink(path)
        w.fail('c18.add_cli', 'add-metadata raised %r' % (e,))
    os.unlink(path)
    # the helper behind the command hands back the annotated table; whether
    # that is the table it was given (annotated in place) or a new one is its
    # own business (it is not public API): the result is what is checked, and
    # what the slot holds from here on
    result = ret if ret is not None else slot.real
    w.expect_table(result, exp, 'c18.add_cli', True, 'add-metadata')
    if result is not slot.real:
        w.expect_unchanged(slot, 'c18.add_cli.receiver_changed',
                           'add-metadata returned a new table')
        slot.real = result
    slot.ref = exp
    return 'c18_mapfile:ok'


def _c18_command(w, ev, slot, ref, ax, path, want, override, kw):
    """the click command: table file in, mapping file(s) in, JSON out; with
    a second mapping file for the other axis in the same invocation"""
    import datetime
    import biom
    from biom.cli.metadata_adder import add_metadata as cmd
    if ev.get('b', 0) % 3 == 0:
        return
    oax = 1 - ax
    other_ids = [i for i in ref.ids[oax] if tsv_safe_id(i) and '"' not in i]
    both = bool(ev.get('b', 0) & 8) and bool(other_ids)
    opath = None
    owant = {}
    if both:
        opath = store.new_path(w, '.map2.tsv')
        with open(opath, 'w', encoding='utf8') as f:
            f.write('#ID\tNote2\n')
            for i in other_ids[:3]:
                f.write('%s\tn2 %s\n' % (i, len(i)))
                owant[i] = {'Note2': 'n2 %s' % len(i)}
    inp = store.new_path(w, '.json.biom')
    outp = store.new_path(w, '.added.biom')
    with open(inp, 'w', encoding='utf8') as f:
        f.write(slot.real.to_json('c18', creation_date=datetime.datetime(
            2020, 1, 1)))

    def join(key):
        return ','.join(kw[key]) if key in kw else None
    hdr = ','.join(override) if override else None
    args = dict(input_fp=inp, output_fp=outp,
                sample_metadata_fp=path if ax == 1 else opath,
                observation_metadata_fp=path if ax == 0 else opath,
                sc_separated=join('sc_separated'),
                sc_pipe_separated=join('sc_pipe_separated'),
                int_fields=join('int_fields'),
                float_fields=join('float_fields'),
                sample_header=hdr if ax == 1 else None,
                observation_header=hdr if ax == 0 else None,
                output_as_json=True)
    w.case('c18.add_cli', 'add-metadata command', slot, ax=ax, both=both)
    try:
        cmd.callback(**args)
        got = biom.load_table(outp)
    except Exception as e:  # noqa
        w.fail('c18.add_cli', 'biom add-metadata raised %r' % (e,))
    finally:
        for pth in (inp, outp, opath):
            if pth and os.path.exists(pth):
                os.unlink(pth)
    exp = ref.copy()
    for a, mapping in ((ax, want), (oax, owant)):
        cur = [dict(d) for d in exp.mdl(a)]
        for k, i in enumerate(ref.ids[a]):
            if i in mapping:
                cur[k].update(copy.deepcopy(mapping[i]))
        exp.md[a] = canon_md(json.loads(json.dumps(cur)))
    s = Snap(got)
    if s.ids != exp.ids or not np.array_equal(s.m, exp.m):
        w.fail('c18.add_cli', 'biom add-metadata changed ids or values')
    for a in (0, 1):
        if not md_equal(s.md[a], exp.md[a]):
            w.fail('c18.add_cli', 'biom add-metadata (%s mapping%s): %s '
                   'metadata %r, expected %r'
                   % (AXNAME[ax], ' + other axis' if both else '', AXNAME[a],
                      s.md[a], exp.md[a]))
    w.stats['c18.cli_command'] += 1


# ===================================================================== C19 ==
def _fmt3(x):
    return '%1.3f' % x


@probe('c19_report')
def c19_report(w, ev, slot):
    from biom.cli.table_summarizer import _summarize_table
    ref, t = slot.ref, slot.real
    a = ev.get('a', 0)
    qual, obs = bool(a & 1), bool(a & 2)
    w.case('c19.report', 'summarize-table', slot, qualitative=qual,
           observations=obs)
    with np.errstate(all='ignore'):
        tots = ref.m.sum(axis=0 if not obs else 1)
        if not np.isfinite(tots).all() or not np.isfinite(tots.sum()):
            return 'skip:overflow'
    try:
        if a & 4:
            import datetime
            from biom.cli.table_summarizer import summarize_table as cmd
            inp = store.new_path(w, '.json.biom')
            outp = store.new_path(w, '.summary.txt')
            with open(inp, 'w', encoding='utf8') as f:
                f.write(t.to_json('c19', creation_date=datetime.datetime(
                    2020, 1, 1)))
            try:
                cmd.callback(inp, outp, qual, obs)
                text = open(outp, encoding='utf8').read()
            finally:
                for pth in (inp, outp):
                    if os.path.exists(pth):
                        os.unlink(pth)
            w.stats['c19.cli_command'] += 1
        else:
            text = _summarize_table(t, qualitative=qual, observations=obs)
    except Exception as e:  # noqa
        w.fail('c19.report', 'summarize-table raised %r' % (e,))
    lines = text.split('\n')
    src = (ref.m != 0).astype(float) if qual else ref.m
    vax = 0 if obs else 1                 # the vectors that are summarised
    per = src.sum(axis=1 - vax)           # one figure per id on vax
    ids = ref.ids[vax]
    from .reads import exact_matrix
    exact = exact_matrix(ref.m)

    def field(prefix):
        hit = [ln for ln in lines if ln.startswith(prefix)]
        if len(hit) != 1:
            w.fail('c19.report', 'report has %d lines starting %r:\n%s'
                   % (len(hit), prefix, text))
        return hit[0][len(prefix):]

    def num_eq(got_s, want, fmt=_fmt3):
        if got_s == fmt(want):
            return True
        if exact:
            return False
        try:
            return abs(float(got_s) - want) <= 1e-9 * max(1.0, abs(want)) + \
                0.0011
        except ValueError:
            return False
    if field('Num samples: ') != '%d' % ref.n(1):
        w.fail('c19.report', 'Num samples %r, table has %d'
               % (field('Num samples: '), ref.n(1)))
    if field('Num observations: ') != '%d' % ref.n(0):
        w.fail('c19.report', 'Num observations %r, table has %d'
               % (field('Num observations: '), ref.n(0)))
    with np.errstate(all='ignore'):
        big = bool(len(per)) and (not np.isfinite(per).all() or
                                  np.abs(per).max() > 1e15 or
                                  not np.isfinite(per.sum()))
    if not qual:
        tot = math.fsum(per.tolist())
        got = field('Total count: ')
        if not big:
            ok = got == '%d' % tot or (not exact and
                                       abs(int(got) - tot) <= 1 + 1e-9 * abs(tot))
            if not ok:
                w.fail('c19.report', 'Total count %r, matrix total %r'
                       % (got, tot))
        dens = (ref.m != 0).sum() / float(ref.m.size)
        got = field('Table density (fraction of non-zero values): ')
        if got != _fmt3(dens):
            w.fail('c19.report', 'density %r, expected %s' % (got,
                                                              _fmt3(dens)))
    if not big:
        for name, want in ((' Min: ', per.min()), (' Max: ', per.max()),
                           (' Median: ', float(np.median(per))),
                           (' Mean: ', float(per.mean())),
                           (' Std. dev.: ', float(per.std()))):
            got = field(name)
            if not num_eq(got, want):
                w.fail('c19.report', '%s%r, expected %s (per-%s figures %r)'
                       % (name.strip(), got, _fmt3(want), AXNAME[vax],
                          per.tolist()))
    for label, ax in ((' Sample Metadata Categories: ', 1),
                      (' Observation Metadata Categories: ', 0)):
        got = field(label)
        md = ref.md[ax]
        real_md = t.metadata(axis=AXNAME[ax])
        if real_md is None:
            want = {'None provided'}
        else:
            want = set(real_md[0].keys()) if md is None else set(md[0])
        if md is None and got in ('None provided', ''):
            continue      # "no metadata" and "every entry empty" are one state
        if set(got.split('; ')) != want and got != '; '.join(sorted(want)):
            if not (want == set() and got == ''):
                w.fail('c19.report', '%s%r, expected %r' % (label.strip(), got,
                                                            sorted(want)))
    # detail lines: every id with its figure, ordered by figure
    try:
        start = max(i for i, ln in enumerate(lines)
                    if ln.endswith('detail:'))
    except ValueError:
        w.fail('c19.report', 'no detail section:\n' + text)
    detail = lines[start + 1:]
    got_pairs = []
    for ln in detail:
        if ': ' not in ln:
            w.fail('c19.report', 'malformed detail line %r' % ln)
        i, v = ln.rsplit(': ', 1)
        got_pairs.append((i, v))
    want_pairs = [(ids[k], _fmt3(per[k])) for k in range(len(ids))]
    if not big:
        if exact or True:
            if sorted(p[0] for p in got_pairs) != sorted(ids):
                w.fail('c19.report', 'detail lists ids %r, table has %r'
                       % ([p[0] for p in got_pairs], ids))
            gmap = dict(got_pairs)
            for i, v in want_pairs:
                if not num_eq(gmap[i], float(v) if not exact else
                              per[ids.index(i)]):
                    if gmap[i] != v:
                        w.fail('c19.report', 'detail %r: %r, expected %s'
                               % (i, gmap[i], v))
        vals = [float(p[1]) for p in got_pairs]
        if vals != sorted(vals):
            w.fail('c19.report', 'detail lines are not ordered by figure: %r'
                   % vals)
    w.expect_unchanged(slot, 'c19.source_changed', 'summarize-table')
    return 'c19_report:ok'


@probe('c19_cli')
def c19_cli(w, ev, slot):
    import datetime
    from biom.cli.table_ids import summarize_table as table_ids_cmd
    from biom.cli.table_head import head as head_cmd
    from biom.cli.metadata_exporter import export_metadata as export_cmd
    ref, t = slot.ref, slot.real
    a, b, c = ev.get('a', 0), ev.get('b', 0), ev.get('c', 0)
    path = store.new_path(w, '.json.biom')
    with open(path, 'w', encoding='utf8') as f:
        f.write(t.to_json('cli', creation_date=datetime.datetime(2020, 1, 1)))
    which = a % 3
    try:
        if which == 0:
            obs = bool(b & 1)
            w.case('c19.cli', 'table-ids', slot, obs=obs)
            buf = io.StringIO()
            with contextlib.redirect_stdout(buf):
                table_ids_cmd.callback(path, obs)
            want = ref.ids[0 if obs else 1]
            got = buf.getvalue()
            if got != ''.join(i + '\n' for i in want):
                w.fail('c19.cli', 'table-ids printed %r, expected ids %r'
                       % (got, want))
        elif which == 1:
            if not all(tsv_safe_id(i) for ax in (0, 1) for i in ref.ids[ax]):
                return 'skip:ids'
            n, m = 1 + b % 6, 1 + c % 6
            w.case('c19.cli', 'head', slot, n=min(n, 3), m=min(m, 3))
            out = store.new_path(w, '.head.txt')
            head_cmd.callback(path, out, n, m)
            text = open(out, encoding='utf8').read()
            os.unlink(out)
            lines = text.split('\n')
            hdr = lines[1].split('\t')[1:]
            want_s = ref.ids[1][:m]
            want_o = ref.ids[0][:n]
            if hdr != want_s:
                w.fail('c19.cli', 'head columns %r, expected %r' % (hdr,
                                                                   want_s))
            body = [ln.split('\t') for ln in lines[2:] if ln]
            if [r[0] for r in body] != want_o:
                w.fail('c19.cli', 'head rows %r, expected %r'
                       % ([r[0] for r in body], want_o))
            got = np.array([[float(x) for x in r[1:]] for r in body])
            want = ref.m[:n, :m]
            if got.shape != want.shape or not np.array_equal(got, want):
                w.fail('c19.cli', 'head block %r, expected %r'
                       % (got.tolist(), want.tolist()))
        else:
            ax = b & 1
            md = ref.md[ax]
            w.case('c19.cli', 'export-metadata', slot, ax=ax,
                   md=md is not None)
            if md is not None:
                # outside the domain (same categories on every id, lists of
                # one length per category): what the exporter does with
                # ragged metadata is not specified, it may also refuse
                keys0 = list(md[0])
                if not all(set(d) == set(keys0) for d in md) or any(
                        len({len(d[k]) if isinstance(d.get(k), (list, tuple))
                             else -1 for d in md}) != 1 for k in keys0):
                    return 'skip:irregular_md'
            out = store.new_path(w, '.md.tsv')
            buf = io.StringIO()
            with contextlib.redirect_stdout(buf):
                export_cmd.callback(path, out if ax == 1 else None,
                                    out if ax == 0 else None)
            if md is None:
                if os.path.exists(out) and os.path.getsize(out) > 0:
                    os.unlink(out)
                    w.fail('c19.cli', 'export-metadata wrote a file for an '
                           'axis without metadata')
                if os.path.exists(out):
                    os.unlink(out)
                return 'c19_cli:nomd'
            keys = list(md[0])
            regular = all(set(d) == set(keys) for d in md)
            lens = {}
            for k in keys:
                ls = {len(d[k]) if isinstance(d.get(k), (list, tuple)) else -1
                      for d in md}
                lens[k] = ls.pop() if len(ls) == 1 else None
            if not regular or any(v is None for v in lens.values()) or \
                    not os.path.exists(out):
                if os.path.exists(out):
                    os.unlink(out)
                return 'skip:irregular_md'
            import pandas as pd
            df = pd.read_csv(out, sep='\t', index_col=0, dtype=str,
                             keep_default_na=False, na_filter=False,
                             quoting=0)
            os.unlink(out)
            if not all(tsv_safe_id(i) and '"' not in i for i in ref.ids[ax]):
                return 'skip:ids'
            if [str(i) for i in df.index] != ref.ids[ax]:
                w.fail('c19.cli', 'export-metadata index %r, expected %r'
                       % (list(df.index), ref.ids[ax]))
            cols = {}
            for k in keys:
                if lens[k] >= 0:
                    for j in range(lens[k]):
                        cols['%s_%d' % (k, j)] = [d[k][j] for d in md]
                else:
                    cols[k] = [d[k] for d in md]
            if sorted(df.columns) != sorted(cols):
                w.fail('c19.cli', 'export-metadata columns %r, expected %r'
                       % (sorted(df.columns), sorted(cols)))
            for col, want in cols.items():
                got = df[col].tolist()
                for g, x in zip(got, want):
                    if isinstance(x, str):
                        ok = g == x or any(ch in x for ch in '\t\n\r"')
                    elif isinstance(x, bool):
                        ok = g == str(x)
                    else:
                        try:
                            ok = float(g) == float(x)
                        except ValueError:
                            ok = False
                    if not ok:
                        w.fail('c19.cli', 'export-metadata column %r holds '
                               '%r, expected %r' % (col, got, want))
    finally:
        if os.path.exists(path):
            os.unlink(path)
    return 'c19_cli:ok'


# ============================================================ C05 / C16 =====
@probe('c05_interleave')
def c05_interleave(w, ev, slot):
    """several lazy readers on one table, stepped in a PRNG-chosen order with
    read accessors in between (the schedule is the quantifier of C16 and the
    'every accessor reports the same matrix' clause of C05)"""
    from . import reads as R
    ref, t = slot.ref, slot.real
    salt, a = ev.get('salt', 0), ev.get('a', 0)
    readers = []

    def add(kind, gen, expected, cmp, oracle):
        readers.append({'kind': kind, 'gen': gen, 'exp': list(expected),
                        'cmp': cmp, 'cur': 0, 'oracle': oracle})
    if a & 1:
        add('iter(obs)', t.iter(axis='observation'), R._items_iter(ref, 0),
            R._cmp_vec_item, 'reader.iter')
    if a & 2:
        add('iter(samp)', t.iter(axis='sample', dense=bool(a & 32)),
            R._items_iter(ref, 1), R._cmp_vec_item, 'reader.iter')
    if a & 4 or not readers:
        add('nonzero', t.nonzero(), R._items_nonzero(ref), None,
            'reader.nonzero')
    if a & 8 and ref.n(1) <= 4:
        add('pairwise', t.iter_pairwise(axis='sample', tri=bool(a & 16)),
            R._items_pairwise(ref, 1, bool(a & 16), False), R._cmp_pair_item,
            'reader.pairwise')
    if a & 16:
        add('iter_data(obs)', t.iter_data(axis='observation'),
            [ref.vec(0, i) for i in range(ref.n(0))], R._cmp_data_item,
            'reader.iter')
    if a & 64:
        # a suspended partition (parts are tables: compared by ids, vectors)
        pax = (a >> 7) & 1
        labels = {i: 'g%d' % (V.crc(salt, i) % 3) for i in ref.ids[pax]}
        groups = {}
        for k, i in enumerate(ref.ids[pax]):
            groups.setdefault(labels[i], []).append(k)
        exp_parts = [(lab, ref.take(pax, pos)) for lab, pos in groups.items()]

        def cmp_part(item, want):
            lab, tab = item
            msg = coherence(tab, w.absent_id())
            if msg:
                return 'part %r incoherent: %s' % (lab, msg)
            if lab != want[0]:
                return 'label %r, expected %r' % (lab, want[0])
            return diff_ref(Snap(tab), want[1], check_type=False)
        add('partition', t.partition(lambda i, m: labels[str(i)],
                                     axis=AXNAME[pax]),
            exp_parts, cmp_part, 'reader.partition')
    w.case('reader.interleave', 'c05_interleave', slot, kinds=a % 256)
    steps = 0
    for i in range(80):
        if not readers:
            break
        code = V.crc(salt, i)
        if code % 3 == 0 and (code // 3) % 5 == 0 and steps:
            # an invalid request while readers are suspended: an order that
            # names an id twice, a renaming onto an existing id; whatever
            # comes back must not be a table with duplicate ids
            rax = (code // 15) % 2
            ids = ref.ids[rax]
            if len(ids) >= 2:
                w.stats['reader.interleaved_refusals'] += 1
                for what, fn in (
                        ('sort_order naming an id twice', lambda: t.sort_order(
                            [ids[0]] + list(ids[:-1]), axis=AXNAME[rax])),
                        ('update_ids onto an existing id', lambda: t.update_ids(
                            {ids[0]: ids[1]}, axis=AXNAME[rax], strict=False,
                            inplace=False))):
                    try:
                        got = fn()
                    except Exception:  # noqa
                        continue
                    msg = coherence(got, w.absent_id())
                    w.fail('reader.refusal.incoherent' if msg else
                           'reader.refusal.accepted', '%s (with lazily '
                           'evaluated readers suspended) was accepted%s'
                           % (what, ': ' + msg if msg else ''))
            continue
        if code % 3 == 0:
            _poke(t, ref, code // 3)
            w.stats['reader.interleaved_pokes'] += 1
            continue
        r = readers[(code // 3) % len(readers)]
        steps += 1
        try:
            item = next(r['gen'])
        except StopIteration:
            left = len(r['exp']) if r['kind'] == 'nonzero' else \
                len(r['exp']) - r['cur']
            if left:
                w.fail(r['oracle'], 'suspended %s ended %d items early '
                       '(interleaved with read accessors)' % (r['kind'], left))
            readers.remove(r)
            continue
        if r['kind'] == 'nonzero':
            g = (str(item[0]), str(item[1]))
            if g not in r['exp']:
                w.fail(r['oracle'], 'suspended nonzero() yielded %r, not a '
                       'remaining non-zero cell %r (interleaved with read '
                       'accessors)' % (g, r['exp']))
            r['exp'].remove(g)
            continue
        if r['cur'] >= len(r['exp']):
            w.fail(r['oracle'], 'suspended %s yielded too many items'
                   % r['kind'])
        d = r['cmp'](item, r['exp'][r['cur']])
        if d:
            w.fail(r['oracle'], 'suspended %s item %d (interleaved with read '
                   'accessors): %s' % (r['kind'], r['cur'], d))
        r['cur'] += 1
    for r in readers:
        close = getattr(r['gen'], 'close', None)     # iter() returns a zip
        if close:
            close()
    w.stats['reader.interleaved_steps'] += steps
    w.expect_unchanged(slot, 'reader.source_changed', 'interleaved readers')
    return 'c05_interleave:ok'
