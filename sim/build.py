"""Build a real biom.Table from a model state through a chosen constructor
route (DESIGN 3.2 `new`, 3.4, C16 twin routes)."""
import copy

import numpy as np
import scipy.sparse as sp

ROUTES = ['dense', 'listlist_dense', 'triples', 'dict', 'list_rows',
          'list_dicts', 'list_sparse', 'csr', 'csc', 'coo', 'lil', 'dok',
          'bsr', 'csr_unsorted', 'csc_unsorted', 'csr_zeros', 'csc_zeros',
          'coo_zeros', 'coo_dups', 'empty_list', 'csr_dups', 'csc_dups']


def _unsort(mat, salt):
    """reverse the stored order inside every row/column (legal CSR/CSC)"""
    mat = mat.copy()
    for i in range(len(mat.indptr) - 1):
        s, e = mat.indptr[i], mat.indptr[i + 1]
        if e - s > 1:
            mat.indices[s:e] = mat.indices[s:e][::-1].copy()
            mat.data[s:e] = mat.data[s:e][::-1].copy()
    mat.has_sorted_indices = False
    return mat


def _with_zeros(m, salt):
    """COO triples of m plus explicit zeros at (some of) the empty cells"""
    rows, cols = np.nonzero(m)
    vals = m[rows, cols]
    zr, zc = np.nonzero(m == 0)
    keep = [i for i in range(len(zr)) if (i + salt) % 2 == 0]
    rows = np.concatenate([rows, zr[keep]]).astype(np.int32)
    cols = np.concatenate([cols, zc[keep]]).astype(np.int32)
    vals = np.concatenate([vals, np.zeros(len(keep))])
    # shuffle deterministically
    order = np.argsort([(int(r) * 7919 + int(c) * 104729 + salt) % 1009
                        for r, c in zip(rows, cols)], kind='stable')
    return vals[order], rows[order], cols[order]


def matrix_arg(route, m, salt=0):
    """the `data` constructor argument for route; None if the route cannot
    express this matrix (caller falls back to 'dense')."""
    nr, nc = m.shape
    r = ROUTES[route % len(ROUTES)]
    if r == 'dense':
        return m.copy(), {}
    if r == 'listlist_dense':
        return [list(map(float, row)) for row in m], {'input_is_dense': True}
    if r == 'triples':
        rr, cc = np.nonzero(m)
        if len(rr) == 0:
            return None
        return [[int(a), int(b), float(m[a, b])] for a, b in zip(rr, cc)], {}
    if r == 'dict':
        rr, cc = np.nonzero(m)
        if len(rr) == 0:
            return None
        return {(int(a), int(b)): float(m[a, b]) for a, b in zip(rr, cc)}, {}
    if r == 'empty_list':
        # what a document of a table without any non-zero value carries: an
        # empty list of entries (the form the JSON and TSV readers hand to
        # the constructor)
        if (m != 0).any():
            return None
        return [], {}
    if r == 'list_rows':
        return [m[i, :].copy() for i in range(nr)], {}
    if r == 'list_dicts':
        # each row a dict {(0, col): v}; the converter infers the shape from
        # the largest key, so the last column of some row must be non-zero and
        # the orientation heuristic (rows > cols means columns) must not flip
        if nc == 0 or nr == 0 or not (m[:, -1] != 0).any() or nr != 1 and 1 > nc:
            return None
        if 1 > nc:
            return None
        rows = []
        for i in range(nr):
            rows.append({(0, int(c)): float(m[i, c]) for c in range(nc)
                         if m[i, c] != 0})
        return None  # orientation heuristic makes this route input-dependent
    if r == 'list_sparse':
        if nr > nc:
            # the converter treats tall inputs as columns; keep it unambiguous
            return None
        return [sp.csr_matrix(m[i:i + 1, :]) for i in range(nr)], {}
    if r == 'csr':
        return sp.csr_matrix(m), {}
    if r == 'csc':
        return sp.csc_matrix(m), {}
    if r == 'coo':
        return sp.coo_matrix(m), {}
    if r == 'lil':
        return sp.lil_matrix(m), {}
    if r == 'dok':
        return sp.dok_matrix(m), {}
    if r == 'bsr':
        return sp.bsr_matrix(m), {}
    if r == 'csr_unsorted':
        return _unsort(sp.csr_matrix(m), salt), {}
    if r == 'csc_unsorted':
        return _unsort(sp.csc_matrix(m), salt), {}
    if r in ('csr_zeros', 'csc_zeros', 'coo_zeros'):
        v, rr, cc = _with_zeros(m, salt)
        coo = sp.coo_matrix((v, (rr, cc)), shape=m.shape)
        if r == 'coo_zeros':
            return coo, {}
        # build compressed arrays by hand so explicit zeros and order survive
        if r == 'csr_zeros':
            order = np.argsort(rr, kind='stable')
            indptr = np.zeros(nr + 1, dtype=np.int32)
            np.add.at(indptr, rr + 1, 1)
            indptr = np.cumsum(indptr).astype(np.int32)
            return sp.csr_matrix((v[order], cc[order], indptr),
                                 shape=m.shape), {}
        order = np.argsort(cc, kind='stable')
        indptr = np.zeros(nc + 1, dtype=np.int32)
        np.add.at(indptr, cc + 1, 1)
        indptr = np.cumsum(indptr).astype(np.int32)
        return sp.csc_matrix((v[order], rr[order], indptr), shape=m.shape), {}
    if r == 'coo_dups':
        # duplicate coordinates are summed by scipy: split each value in two
        # halves only when halving is exact
        rr, cc = np.nonzero(m)
        vals = m[rr, cc]
        half = vals / 2.0
        ok = (half + half == vals) & np.isfinite(half) & (half != 0)
        rows = np.concatenate([rr, rr[ok]]).astype(np.int32)
        cols = np.concatenate([cc, cc[ok]]).astype(np.int32)
        v = np.concatenate([np.where(ok, half, vals), half[ok]])
        return sp.coo_matrix((v, (rows, cols)), shape=m.shape), {}
    if r in ('csr_dups', 'csc_dups'):
        # compressed arrays written by hand in which a coordinate is stored
        # twice (legal: scipy, and every reader of the matrix, take repeated
        # entries as their sum); values are split only when halving is exact
        rr, cc = np.nonzero(m)
        vals = m[rr, cc]
        half = vals / 2.0
        ok = (half + half == vals) & np.isfinite(half) & (half != 0)
        ok &= (np.arange(len(vals)) + salt) % 2 == 0
        rows = np.concatenate([rr, rr[ok]]).astype(np.int32)
        cols = np.concatenate([cc, cc[ok]]).astype(np.int32)
        v = np.concatenate([np.where(ok, half, vals), half[ok]])
        major, minor, n = (rows, cols, nr) if r == 'csr_dups' else \
            (cols, rows, nc)
        order = np.argsort(major, kind='stable')
        indptr = np.zeros(n + 1, dtype=np.int32)
        np.add.at(indptr, major + 1, 1)
        indptr = np.cumsum(indptr).astype(np.int32)
        cls = sp.csr_matrix if r == 'csr_dups' else sp.csc_matrix
        return cls((v[order], minor[order], indptr), shape=m.shape), {}
    raise ValueError(r)


def build_table(ref, route, salt=0, ids_as=0):
    """real Table with the content of model `ref` through `route`."""
    from biom import Table
    got = matrix_arg(route, ref.m, salt)
    if got is None:
        got = matrix_arg(0, ref.m, salt)
    data, kw = got
    oids, sids = list(ref.ids[0]), list(ref.ids[1])
    if ids_as == 1:
        oids, sids = np.array(oids), np.array(sids)
    elif ids_as == 2:
        oids, sids = tuple(oids), tuple(sids)
    elif ids_as == 3:
        # python str objects in an object array (what a pandas Index holds)
        oids, sids = np.array(oids, dtype=object), np.array(sids, dtype=object)
    omd = copy.deepcopy(ref.md[0])
    smd = copy.deepcopy(ref.md[1])
    if salt % 3 == 1:
        # the same categories, written down in another order for every
        # second id
        for md in (omd, smd):
            if md:
                for k in range(1, len(md), 2):
                    if isinstance(md[k], dict):
                        md[k] = dict(reversed(list(md[k].items())))
    return Table(data, oids, sids, omd, smd, table_id=ref.table_id,
                 type=ref.type, **kw)
