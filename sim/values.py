"""Fixed tables from which events pick concrete values.

Events carry only small integers (indices into these tables), so that a
recorded event list is independent of anything but this file and the state it
is executed against (DESIGN 3.2, Appendix D).
"""
import zlib

MAXN = 16  # upper bound on either axis of a generated start table


def crc(*parts):
    """Deterministic small hash (never Python's hash(): PYTHONHASHSEED)."""
    return zlib.crc32('\x1f'.join(str(p) for p in parts).encode('utf8'))


# ---------------------------------------------------------------- values ----
# index 0 is always 0.0 so that "shrink a cell to vid 0" means "make it zero"
_EXACT = [0.0, 1.0, 2.0, 3.0, 5.0, 7.0, 12.0, 100.0, -1.0, -4.0, 0.5, 0.25,
          1.5, -2.75, 1024.0, 3.0 * 2 ** -10, float(2 ** 39), -0.125, 9.0, 42.0]
_WILD = [0.0, 0.1, 1.0 / 3.0, 1e-7, 1e-300, 5e-324, 1e300, -3.7,
         float(2 ** 53 + 2), 123456.789012345, 2.5e-5, -1e-9, 6.02214076e23,
         1.0, 2.0, 1.23456789, 0.30000000000000004, -0.1, 99999.99999999999,
         1.7976931348623157e308]
_COUNTS = [0.0, 1.0, 2.0, 3.0, 4.0, 5.0, 7.0, 10.0, 1.0, 2.0, 6.0, 20.0,
           50.0, 1000.0, 3.0, 1.0, 8.0, 13.0, 2.0, 1000000.0]
_SMALL3 = [0.0, 1.0, 2.0]
_POS = [0.0, 1.0, 2.0, 3.0, 5.0, 0.5, 0.25, 8.0, 1.5, 10.0, 100.0, 0.125,
        7.0, 4.0, 6.0, 12.0, 1024.0, 9.0, 42.0, 2.75]

# non-negative with subnormal and very small magnitudes (totals whose
# reciprocal or square leaves the float range)
_TINY = [0.0, 5e-324, 1e-320, 3e-310, 1e-300, 2.5e-200, 1.0, 1e-7, 0.5,
         1e-320, 4e-323, 2.0, 1e-160, 7e-309, 3.0, 1e-320, 0.0, 1e-100,
         2e-308, 1e-5]
VALUE_FAMILIES = {'exact': _EXACT, 'wild': _WILD, 'counts': _COUNTS,
                  'small3': _SMALL3, 'pos': _POS, 'tiny': _TINY}


def value(family, vid):
    tab = VALUE_FAMILIES[family]
    return tab[vid % len(tab)]


# ------------------------------------------------------------------- ids ----
def _mk_ascii(prefix):
    return ['%s%d' % (prefix, i) for i in range(1, 41)]


_PUNCT_O = ['o b', 'O-1', 'o_2;x', 'o:3', "o'4", 'o(5)', 'o.6', 'o,7', 'o|8',
            'o=9', 'o 10 x', 'o[11]', 'o{12}', 'o@13', 'o!14', 'o%15', 'o&16',
            'o*17', 'o+18', 'o~19', 'o^20', 'o<21>', 'o?22', 'o$23', 'o`24']
_SLASH_O = ['a/b', 'k__x/p__y', 'o/1', 'o/2/3', '/lead', 'trail/', 'o//dbl',
            'x/y z', 'p/q-r', 'm/n.1', 'o/11', 'o/12', 'o/13', 'o/14', 'o/15',
            'o/16', 'o/17', 'o/18', 'o/19', 'o/20', 'o/21', 'o/22', 'o/23',
            'o/24', 'o/25']
_UNI_O = ['école', 'naïve', 'αβγ', '日本',
          'oß1', 'ñu', 'Жук', 'café 2',
          '\U0001f9ec1', 'über', 'oω1', '中文x', 'ångstr',
          'æon', 'œuvre', 'þorn', 'đa', 'łódź',
          'का', 'אב', 'กข', 'µm', 'o–dash',
          '“q”', 'x²']
_CTRL_O = ['q"1', 'b\\2', 'tab\t3', 'nl\n4', 'cr\r5', 'bell\x07', 'q"q"',
           '\\n6', 'x\x1f7', '"', '\\', 'a"b\\c', '\x01s', 'u ls',
           '{"id": 1}', '[0,0,1]', '],', '"rows":', 'nul\x00z', 'sq\'', 'sl/',
           '\x7fdel', 'é', ',', ': ']


_PUNCT_O += ['_lead', 'trail_', '.dot', 'dot.', '-dash', 'dash-', '(par)',
             '0lead', 'x#hash', ';semi', 'q?', '*', '__', 'a..b']
_CTRL_O += ['#hash', ' lead', 'trail ', '_u_']


def _variant(base, tag):
    return [tag + s for s in base]


ID_ALPHABETS = {
    'ascii': (_mk_ascii('O'), _mk_ascii('S')),
    'num': (['%d' % i for i in range(1, 41)],
            ['%d.%d' % (i // 3, i) for i in range(1, 41)]),
    'punct': (_PUNCT_O, _variant(_PUNCT_O, 's ')),
    'slash': (_SLASH_O, _variant(_SLASH_O, 's')),
    'unicode': (_UNI_O, _variant(_UNI_O, 'σ')),
    'ctrl': (_CTRL_O, _variant(_CTRL_O, 's')),
    'long': (['L%d_' % i + 'x' * (30 + 11 * (i % 5)) + ('y' * 260 if i == 3 else '')
              for i in range(1, 26)],
             ['M%d_' % i + 'z' * (20 + 7 * (i % 4)) for i in range(1, 26)]),
    # ids that differ from each other only in leading / trailing whitespace
    'ws': ([' lead', 'lead', 'trail ', 'trail', ' both ', 'both', 'tab\t',
            'tab', '\tx', 'x', 'in ner', 'inner', '  two', 'two', ' ', '  ',
            'O1', ' O1', 'O1 ', 'O2\t', 'O2', 'a b ', 'a b', ' a b', 'nb\xa0',
            'nb'],
           [' s', 's', 's ', ' s ', 'S1', 'S1 ', ' S1', 'S2\t', 'S2', '\tS2',
            's s', ' s s', 's s ', 't', 't ', ' t', '\t', ' \t', 'u\xa0', 'u',
            'v  ', 'v', '  v', 'w w', ' w w ']),
    # ids that coincide with names used elsewhere: metadata categories and
    # the column labels exporters add, document member names, words that
    # readers might take for numbers, missing values or booleans
    'labels': (['taxonomy', 'Taxonomy', 'barcode', 'depth', 'rows', 'id',
                'metadata', 'data', 'None', 'nan', 'NA', 'inf', 'True', '0',
                '1', '-1', '1e3', 'observation', 'sample', 'whole', 'shape',
                'Consensus Lineage', 'OTU Metadata', 'collapsed_ids', 'null'],
               ['taxonomy', 'Consensus Lineage', 'Taxonomy', 'ph', 'columns',
                'id', 'metadata', 'type', 'None', 'nan', 'NA', 'Infinity',
                'False', '0', '1', '-0', '0x10', 'sample', 'observation',
                'whole', 'date', 'OTU Metadata', 'ConsensusLineage', 'note',
                'null']),
    'natsort': (['a10', 'a2', 'a1.5', 'b1', 'A3', '10', '9', '1.10', '1.9',
                 'x', 'a', 'a01', 'a1', 'z9z1', 'z9z10', 'z10z1', '2b', '2a',
                 '07', '7', 'a-1', 'a.1', 'a_1', '1e3', 'b'],
                ['s10', 's2', 's1.5', 't1', 'S3', '100', '90', '10.10',
                 '10.9', 'y', 's', 's01', 's1', 'w9w1', 'w9w10', 'w10w1',
                 '20b', '20a', '070', '70', 's-1', 's.1', 's_1', '1e30',
                 't']),
}
# alphabets usable where the text travels through TSV / HDF5 / mapping files
TSV_SAFE = ('ascii', 'num', 'punct', 'slash', 'unicode', 'long', 'natsort')
H5_SAFE = ('ascii', 'num', 'punct', 'slash', 'unicode', 'long', 'natsort',
           'ws')


def id_pool(alpha, axis):
    """axis 0 = observation, 1 = sample"""
    return ID_ALPHABETS[alpha][axis]


def fresh_id(alpha, axis, k, taken):
    """k-th candidate from the pool not in `taken` (deterministic)."""
    pool = id_pool(alpha, axis)
    n = len(pool)
    for j in range(n):
        c = pool[(k + j) % n]
        if c not in taken:
            return c
    return '%s#%d' % (pool[k % n], len(taken))


# -------------------------------------------------------------- metadata ----
# category -> kind ; kinds: text, int, float, bool, list (hierarchical)
MD_CATS = [('barcode', 'text'), ('depth', 'int'), ('ph', 'float'),
           ('taxonomy', 'list'), ('flag', 'bool'), ('env/site', 'text'),
           ('collapsed_ids', 'list'), ('KEGG_Pathways', 'list'),
           ('note', 'text'), ('Taxonomy', 'list'),
           # JSON-only kinds (C02: nested lists, null, numpy scalars)
           ('np_count', 'npint'), ('np_frac', 'npfloat'),
           ('nested', 'nested'), ('maybe', 'null'),
           # plain text categories whose names are case variants of the
           # reserved hierarchical names
           ('TAXONOMY', 'text'), ('Collapsed_IDs', 'text'),
           # hierarchical list with an unnamed (blank) interior rank: text
           # formats only (HDF5 pads lists with blanks)
           ('lineage', 'elist'),
           # one numeric category holding ints and floats side by side
           ('score', 'num')]
N_BASIC_CATS = 10
BASIC_CATS = list(range(N_BASIC_CATS)) + [14, 15, 17]
_TEXTS = ['AATT', 'gut', 'soil', 'x y', 'a;b', 'k__Bacteria', 'p__Firmicutes',
          'c__Bacilli', 'o__Lacto', 'café', 'a/b', 'q', 'zz top', 'n-a',
          'B|C', 'water', 'skin', 'β', 'l33t', 'Z']
_CTRL_TEXTS = ['he said "hi"', 'back\\slash', 'tab\there', 'line\nbreak',
               '\x01', 'q"', '\\"', '{"a": [1]}', ' ', 'plain']


def md_value(kind, salt, idtext, cat, ctrl=False):
    h = crc(salt, idtext, cat)
    if kind == 'text':
        tab = _CTRL_TEXTS if ctrl and h % 3 == 0 else _TEXTS
        return tab[h % len(tab)]
    if kind == 'int':
        if h % 5 == 0:
            # beyond 2**53: exact only if it is never routed through a double
            return 2 ** 53 + 1 + int(h % 1000) * 2 ** 8
        if h % 4 == 1:
            return (0, 1, 2, -1)[(h >> 4) % 4]    # equal to a float / a bool
        return int(h % 1000) - 200
    if kind == 'num':
        return (int(h % 50) - 5) if h % 2 else ((h % 4096) / 64.0 - 8.0)
    if kind == 'float':
        if h % 4 == 1:
            return (0.0, 1.0, 2.0, -1.0)[(h >> 4) % 4]   # integral floats
        return (h % 4096) / 64.0 - 8.0
    if kind == 'bool':
        return bool(h & 1)
    if kind == 'npint':
        import numpy as np
        return np.int64(2 ** 53 + 1 + int(h % 1000) * 2) if h % 2 else \
            np.int32(h % 100)
    if kind == 'npfloat':
        import numpy as np
        return np.float64((h % 4096) / 7.0)
    if kind == 'nested':
        return [[int(h % 5), _TEXTS[h % len(_TEXTS)]], [(h % 9) / 2.0, None],
                []]
    if kind == 'null':
        return None if h % 2 else _TEXTS[h % len(_TEXTS)]
    if kind == 'elist':
        n = 3 + h % 2
        out = [_TEXTS[(h >> (4 * i)) % len(_TEXTS)] for i in range(n)]
        if h % 3:
            out[1 + (h >> 5) % (n - 2)] = ''
        return out
    if kind == 'list':
        n = 1 + h % 3
        if h % 7 == 3:
            n = 5 + h % 3          # a full lineage: 5 to 7 levels
        return [_TEXTS[(h >> (4 * i)) % len(_TEXTS)] for i in range(n)]
    raise ValueError(kind)


def md_entry(catmask, salt, idtext, ctrl=False):
    """Metadata dict for one id: categories selected by bitmask."""
    d = {}
    for i, (cat, kind) in enumerate(MD_CATS):
        if catmask >> i & 1:
            d[cat] = md_value(kind, salt, idtext, cat, ctrl)
    return d


TABLE_TYPES = [None, 'OTU table', 'Pathway table', 'Function table',
               'Ortholog table', 'Gene table', 'Metabolite table',
               'Taxon table']
