"""Seeded, state-aware event generator (DESIGN 3.2, 3.6).

Draws every choice from one random.Random; looks at the world's *models* to
bias choices towards executable / interesting events, but records only
state-relative integers, so the resulting list replays without the
generator."""
import numpy as np

from . import values as V
from . import callbacks as CB
from .build import ROUTES

ALL_OPS = ['filter', 'remove_empty', 'head', 'sort', 'sort_order',
           'transpose', 'copy', 'update_ids', 'add_metadata', 'del_metadata',
           'transform', 'norm', 'pa', 'rankdata', 'subsample', 'collapse',
           'partition', 'merge', 'concat', 'align_to']
ALL_READS = ['data', 'value', 'getslice', 'iter', 'iter_data', 'pairwise',
             'nonzero', 'sum', 'nnz', 'density', 'minmax', 'nonzero_counts',
             'reduce', 'stats', 'dataframe', 'md_dataframe', 'eq', 'text']
ALL_PERTURB = ['flip', 'nnz', 'repr', 'eqself', 'iterall', 'h5', 'sortinv',
               'tt', 'copy', 'filterall', 'identity', 'rebuild', 'fulldepth',
               'groupmd']
ALL_SPAWN = ['iter', 'iter_data', 'pairwise', 'nonzero', 'partition']

BASE_KIND_W = {'op': 10.0, 'read': 5.0, 'perturb': 3.0, 'spawn': 1.2,
               'step': 3.0, 'drop': 0.2, 'new': 0.6, 'probe': 0.0}


def wchoice(rng, weights):
    """weights: dict name -> weight (insertion order is the draw order)"""
    items = [(k, v) for k, v in weights.items() if v > 0]
    tot = sum(v for _, v in items)
    x = rng.random() * tot
    for k, v in items:
        x -= v
        if x < 0:
            return k
    return items[-1][0]


def draw_cfg(rng, profile, tier):
    """swarm configuration of one run"""
    p = profile
    big = tier == 'thorough' and rng.random() < 0.35
    cfg = {
        'vfam': rng.choice(p.get('vfams', ['exact', 'exact', 'counts', 'wild',
                                            'small3', 'pos', 'tiny'])),
        'alpha': rng.choice(p.get('alphas', ['ascii', 'ascii', 'num', 'punct',
                                             'slash', 'unicode', 'long',
                                             'natsort', 'ws', 'labels'])),
        'ctrl_md': int(rng.random() < p.get('ctrl_md', 0.0)),
        'pool': rng.choice(p.get('pools', [2, 3, 4, 6, 6])),
        'len': rng.choice(p.get('lens', [6, 10, 16, 24, 40, 60])),
        'maxdim': rng.choice(p.get('maxdims', [2, 3, 3, 4, 5, 6])
                             if not big else [6, 8, 12, 14]),
        'readers': int(rng.random() < p.get('p_readers', 0.6)),
        'faults': rng.choice(p.get('faults', ['none', 'none', 'F1', 'F2',
                                              'F6', 'all'])),
        'fault_rate': rng.choice([0.12, 0.12, 0.3, 0.5]),
        # a caller's habit: one read-only look at the table after every
        # operation on it (what that accessor leaves or remembers is then in
        # place before every later operation)
        'habit': rng.choice([None, None, None, None, 'nnz', 'repr', 'eqself',
                             'flip']),
        'md_rate': rng.choice([0.0, 0.5, 1.0]),
        'sparsity': rng.choice([0.2, 0.5, 0.8, 1.0]),
    }
    ops = p.get('ops') or {o: 1.0 for o in ALL_OPS}
    must = set(p.get('must_ops', ()))
    frac = rng.uniform(0.4, 1.0)
    enabled = {}
    for o, wgt in ops.items():
        if o in must or rng.random() < frac:
            enabled[o] = wgt
    if not enabled:
        enabled = dict(ops)
    if cfg['vfam'] == 'wild':
        # arithmetic whose result depends on summation order is kept out of
        # bit-exact runs (DESIGN 4.3)
        for o in ('collapse', 'norm'):
            enabled.pop(o, None)
        if not enabled:
            enabled = {'copy': 1.0, 'sort_order': 1.0, 'filter': 1.0}
    cfg['ops'] = enabled
    # focus runs (swarm): two or three operations only, a small pool, one
    # preferred axis, mostly in place -- so that one table collects a history
    # of the same few operations (state an operation leaves on the table and
    # a later operation of another kind fails to refresh)
    if rng.random() < p.get('p_focus', 0.3):
        names = sorted(enabled)
        pick = {}
        # one operation by the profile's weights (the property's own), the
        # others from those that can change a table in place (what is most
        # likely to invalidate what the first one left behind), else any
        mutators = [o for o in names if o in (
            'filter', 'remove_empty', 'update_ids', 'add_metadata',
            'del_metadata', 'transform', 'norm', 'pa', 'rankdata')]
        for j in range(rng.choice([2, 2, 3])):
            rest = {o: enabled[o] for o in names if o not in pick}
            if not rest:
                break
            if j and rng.random() < 0.7:
                cand = [o for o in mutators if o not in pick]
                if cand:
                    pick[rng.choice(cand)] = 1.0
                    continue
            o = wchoice(rng, rest)
            pick[o] = 1.0
        cfg['ops'] = pick
        cfg['pool'] = rng.choice([2, 2, 3])
        cfg['len'] = rng.choice([10, 16, 24, 40])
        cfg['focus'] = {'ax': rng.randrange(2)}
    pert = p.get('perturb') or {x: 1.0 for x in ALL_PERTURB}
    pfrac = rng.uniform(0.3, 1.0)
    cfg['perturb'] = {k: v for k, v in pert.items()
                      if rng.random() < pfrac} or dict(pert)
    cfg['reads'] = p.get('reads') or {x: 1.0 for x in ALL_READS}
    cfg['spawn'] = p.get('spawn') or {x: 1.0 for x in ALL_SPAWN}
    kw = dict(BASE_KIND_W)
    kw.update(p.get('kinds', {}))
    if not cfg['readers']:
        kw['spawn'] = 0.0
    if cfg.get('focus'):
        kw['op'] = kw.get('op', 10.0) * 2.5
        kw['new'] = 0.15
    cfg['kinds'] = kw
    cfg['probes'] = p.get('probes', {})
    if p.get('md_cats'):
        cfg['md_cats'] = list(p['md_cats'])
    if p.get('md_full'):
        cfg['md_full'] = True
    cfg['profile'] = p.get('name', '?')
    cfg['tier'] = tier
    return cfg


class Gen:
    def __init__(self, rng, cfg):
        self.rng = rng
        self.cfg = cfg
        self.n_new = 0
        self.after_fault = None
        self.reobserve = None
        self.last_obs = {}
        self.boost = False
        self.habit_due = None

    # ---------------------------------------------------------- pieces --
    def ev_new(self, w):
        rng, cfg = self.rng, self.cfg
        md = cfg['maxdim']
        nr, nc = rng.randint(1, md), rng.randint(1, md)
        if rng.random() < 0.15:
            nr = 1
        if rng.random() < 0.15:
            nc = 1
        fam = V.VALUE_FAMILIES[cfg['vfam']]
        dens = cfg['sparsity']
        cells = [rng.randrange(1, len(fam)) if rng.random() < dens else 0
                 for _ in range(nr * nc)]
        if rng.random() < 0.25 and nr > 1:        # an all-zero row
            r = rng.randrange(nr)
            for c in range(nc):
                cells[r * nc + c] = 0
        if rng.random() < 0.25 and nc > 1:        # an all-zero column
            c = rng.randrange(nc)
            for r in range(nr):
                cells[r * nc + c] = 0
        # distinct-values tables help attribute cells (C13)
        base_o = rng.randrange(0, 20)
        base_s = rng.randrange(0, 20)
        share = rng.random() < 0.6 and self.n_new > 0
        if share:                                  # overlap ids with earlier
            base_o = rng.choice([0, 1, 2])
            base_s = rng.choice([0, 1, 2])
        io = [base_o + i for i in range(nr)]
        is_ = [base_s + i for i in range(nc)]
        if rng.random() < 0.5:
            rng.shuffle(io)
        if rng.random() < 0.5:
            rng.shuffle(is_)
        ncat = len(V.MD_CATS)
        allowed = cfg.get('md_cats') or list(V.BASIC_CATS)

        def mdmask():
            if rng.random() >= cfg['md_rate']:
                return 0
            k = rng.randint(1, 3)
            m = 0
            for c in rng.sample(allowed, min(k, len(allowed))):
                m |= 1 << c
            return m
        self.n_new += 1
        return {'k': 'new', 'route': rng.randrange(len(ROUTES)), 'nr': nr,
                'nc': nc, 'stride': nc, 'cells': cells, 'io': io, 'is': is_,
                'mdo': mdmask(), 'mds': mdmask(), 'salt': rng.randrange(1000),
                'type': rng.randrange(len(V.TABLE_TYPES)) if rng.random() < .7
                else 0, 'tid': rng.randrange(3), 'ids_as': rng.randrange(4),
                'dst': rng.randrange(8)}

    def _slot(self, w, pred=None):
        idx = list(range(len(w.pool)))
        if pred is not None:
            good = [i for i in idx if pred(w.pool[i])]
            if good:
                return self.rng.choice(good)
            return None
        return self.rng.choice(idx)

    def _free(self, w, s):
        return not any(r.slot is w.pool[s] for r in w.readers)

    def _fault(self, n):
        f = self.cfg['faults']
        rate = self.cfg.get('fault_rate', 0.12)
        if f in ('F1', 'all') and self.rng.random() < (
                max(0.3, rate) if self.boost else rate):
            return self.rng.randrange(0, n + 1)
        return None

    def _unk(self):
        f = self.cfg['faults']
        # faults are placed where in-flight state exists: more of them while
        # a lazily evaluated reader is suspended
        if f in ('F2', 'all') and self.rng.random() < (
                0.4 if self.boost else 0.12):
            return self.rng.randrange(1, 40)      # which look-alike id
        return 0

    def _mask(self, n, nonempty=True):
        m = self.rng.randrange(1 if nonempty else 0, 1 << n)
        return m

    def ev_op(self, w):
        rng, cfg = self.rng, self.cfg
        name = wchoice(rng, cfg['ops'])
        s = self._slot(w)
        slot = w.pool[s]
        ref = slot.ref
        ax = rng.randrange(2)
        foc = cfg.get('focus')
        if foc and rng.random() < 0.8:
            ax = foc['ax']
        n = ref.n(ax)
        ev = {'k': 'op', 'name': name, 'slot': s, 'ax': ax,
              'dst': rng.randrange(8), 'pos': int(rng.random() < 0.3)}
        mutating_inplace = False
        if name == 'filter':
            ev.update(by=rng.randrange(2), inv=int(rng.random() < 0.3),
                      inp=int(rng.random() < 0.5), twin=int(rng.random() < .4))
            if ev['by'] == 0:
                ev.update(mask=self._mask(n), rot=rng.randrange(8),
                          rev=rng.randrange(2), cont=rng.randrange(5),
                          unk=self._unk())
            else:
                ev.update(fam=rng.randrange(CB.N_PRED),
                          salt=rng.randrange(100), fault=self._fault(n))
            mutating_inplace = bool(ev['inp'])
            if cfg['faults'] in ('F6', 'all') and rng.random() < 0.25:
                ev['f6'] = 1
                if rng.random() < 0.6:       # aim at emptying the table
                    ev.update(by=0, mask=(1 << n) - 1, inv=1, unk=0)
        elif name == 'remove_empty':
            ev.update(ax=rng.randrange(3), inp=int(rng.random() < 0.5),
                      twin=int(rng.random() < 0.4),
                      f6=int(cfg['faults'] in ('F6', 'all') and
                             rng.random() < 0.25))
            mutating_inplace = bool(ev['inp'])
        elif name == 'head':
            ev.update(n=rng.choice([1, 1, 2, 3, 5, 20]),
                      m=rng.choice([1, 2, 2, 3, 5, 20]))
            if rng.random() < 0.03:
                ev['n'] = 0
        elif name == 'sort':
            ev.update(fam=rng.randrange(CB.N_SORT), explicit=rng.randrange(2),
                      fault=self._fault(0), form=rng.randrange(3))
            if foc and rng.random() < 0.5:
                ev.update(fam=0, explicit=0, fault=None)   # the default order
        elif name == 'sort_order':
            if n <= 4 and rng.random() < 0.5:
                code = [rng.randrange(n - j) for j in range(n)]
            else:
                code = [rng.randrange(12) for _ in range(n)]
            ev.update(perm=code, form=rng.randrange(3), unk=self._unk(),
                      salt=rng.randrange(50),
                      dup=rng.choice([1, 2]) if cfg['faults'] in ('F2', 'all')
                      and rng.random() < (0.4 if self.boost else 0.1) else 0)
        elif name in ('transpose', 'copy'):
            pass
        elif name == 'align_to':
            def alignable(o):
                return (set(o.ref.ids[0]) == set(ref.ids[0]) or
                        set(o.ref.ids[1]) == set(ref.ids[1])) and o is not slot
            p = self._slot(w, alignable)
            if p is None:
                if rng.random() < 0.8:
                    # make a partner: a reordered copy
                    return {'k': 'perturb', 'name': 'sortinv', 'slot': s,
                            'ax': ax, 'perm': [rng.randrange(12)
                                               for _ in range(n)],
                            'dup': 1, 'dst': rng.randrange(8)}
                p = self._slot(w)
            ev.update(partner=p, mode=rng.randrange(4))
        elif name == 'update_ids':
            ev.update(mask=self._mask(n), fam=rng.choice([0, 1, 2, 5, 5, 0, 3,
                                                          4]),
                      salt=rng.randrange(100), strict=rng.randrange(2),
                      inp=int(rng.random() < 0.5), twin=int(rng.random() < .4),
                      extra=int(rng.random() < 0.2))
            if ev['strict'] and rng.random() < 0.7:
                ev['mask'] = (1 << n) - 1
            mutating_inplace = bool(ev['inp'])
        elif name == 'add_metadata':
            ncat = len(V.MD_CATS)
            allowed = cfg.get('md_cats') or list(V.BASIC_CATS)
            km = 0
            for c in rng.sample(allowed, min(rng.randint(1, 2), len(allowed))):
                km |= 1 << c
            ev.update(mask=self._mask(n), keys=km, salt=rng.randrange(1000),
                      extra=rng.randrange(3))
            if cfg.get('md_full'):
                ev['mask'] = (1 << n) - 1
            mutating_inplace = True
        elif name == 'del_metadata':
            ev.update(ax=rng.randrange(3), keys=rng.randrange(1, 16),
                      all=int(rng.random() < 0.2),
                      extra=int(rng.random() < 0.2), kform=rng.randrange(3))
            mutating_inplace = True
        elif name == 'transform':
            ev.update(fam=rng.randrange(CB.N_TRANS), salt=rng.randrange(100),
                      inp=int(rng.random() < 0.5), twin=int(rng.random() < .4),
                      fault=self._fault(n))
            if ev['fault'] is not None:
                # the interesting abort is one that comes after part of the
                # work is visibly done: a function that zeroes entries,
                # failing at a later vector, mostly in place
                if rng.random() < 0.6:
                    ev['fam'] = rng.choice([3, 5])
                if n >= 2 and ev['fault'] == 0 and rng.random() < 0.8:
                    ev['fault'] = rng.randrange(1, n + 1)
                if rng.random() < 0.5:
                    ev['inp'] = 1
            mutating_inplace = bool(ev['inp'])
        elif name in ('norm', 'pa'):
            ev.update(inp=int(rng.random() < 0.5), twin=int(rng.random() < .4))
            mutating_inplace = bool(ev['inp'])
        elif name == 'rankdata':
            ev.update(method=rng.randrange(5), inp=int(rng.random() < 0.5),
                      twin=int(rng.random() < 0.4))
            mutating_inplace = bool(ev['inp'])
        elif name == 'subsample':
            ev.update(n=rng.randrange(12), by_id=int(rng.random() < 0.25),
                      wr=int(rng.random() < 0.3),
                      seed=rng.choice([0, 0, 1, rng.randrange(10 ** 6),
                                       rng.randrange(10 ** 6),
                                       rng.randrange(2 ** 32)]),
                      nadj=rng.randrange(3) if rng.random() < 0.3 else 0,
                      flagform=rng.choice([0, 0, 1, 2]),
                      gen=rng.choice([0, 0, 0, 0, 1, 2]))
        elif name == 'collapse':
            ev.update(fam=rng.randrange(4), salt=rng.randrange(100),
                      norm=rng.randrange(2), mgs=rng.choice([0, 0, 0, 1, 2]),
                      incl=int(rng.random() < 0.8), custom=rng.randrange(2),
                      otm=int(rng.random() < 0.3), mode=rng.randrange(2),
                      key=rng.randrange(2), fault=self._fault(n))
            if ev['otm']:
                ev['norm'] = 0
        elif name == 'partition':
            ev.update(fam=rng.randrange(CB.N_LABEL), salt=rng.randrange(100),
                      form=rng.choice([0, 0, 1, 2]), rme=int(rng.random() < .3),
                      ign=int(rng.random() < 0.4), keep=rng.randrange(3),
                      fault=self._fault(n))
        elif name == 'merge':
            k = rng.choice([1, 1, 1, 2, 3])
            ev.update(partners=[self._slot(w) for _ in range(k)],
                      oi=int(rng.random() < 0.3), si=int(rng.random() < 0.3),
                      list=int(rng.random() < 0.5), dflt=rng.randrange(2))
            if rng.random() < 0.25:
                ev.update(fo=-1, fs=-1)
            else:
                ev.update(fo=rng.randrange(CB.N_MDF),
                          fs=rng.randrange(CB.N_MDF))
                if rng.random() < 0.5:
                    ev.update(fo=0, fs=0)
        elif name == 'concat':
            def disjoint(o):
                return o is not slot and not (set(o.ref.ids[ax]) &
                                              set(ref.ids[ax]))
            cands = [i for i in range(len(w.pool)) if disjoint(w.pool[i])]
            if not cands and rng.random() < 0.85:
                # create a renamed copy to concatenate with later
                return {'k': 'op', 'name': 'update_ids', 'slot': s, 'ax': ax,
                        'mask': (1 << n) - 1, 'fam': 5,
                        'salt': rng.randrange(100), 'strict': 0, 'inp': 0,
                        'twin': 0, 'dst': rng.randrange(8)}
            k = rng.choice([0, 1, 1, 1, 2])
            partners = []
            used = set(ref.ids[ax])
            for _ in range(k):
                good = [i for i in cands
                        if not (set(w.pool[i].ref.ids[ax]) & used)]
                if good and rng.random() < 0.9:
                    p = rng.choice(good)
                else:
                    p = self._slot(w)
                partners.append(p)
                used |= set(w.pool[p].ref.ids[ax])
            ev.update(partners=partners, via=rng.randrange(3))
        if foc and 'inp' in ev and rng.random() < 0.7:
            ev['inp'] = 1
            mutating_inplace = True
        if mutating_inplace and not self._free(w, s) and rng.random() < 0.9:
            # scheduling rule: do not mutate a table under a suspended reader
            ev['inp'] = 0
            if name in ('add_metadata', 'del_metadata'):
                return self.ev_read(w)
        if 'inp' in ev:
            # the flag as bool / numpy bool / int
            ev['iform'] = rng.choice([0, 0, 0, 1, 2])
        return ev

    def ev_read(self, w):
        rng = self.rng
        name = wchoice(rng, self.cfg['reads'])
        s = self._slot(w)
        ref = w.pool[s].ref
        ev = {'k': 'read', 'name': name, 'slot': s, 'ax': rng.randrange(2),
              'i': rng.randrange(12), 'j': rng.randrange(12),
              'pos': int(rng.random() < 0.3)}
        if name in ('data', 'iter', 'iter_data'):
            ev['sparse'] = int(rng.random() < 0.3)
            ev['dunder'] = int(rng.random() < 0.2)
        elif name == 'pairwise':
            ev.update(tri=rng.randrange(2), diag=rng.randrange(2))
        elif name in ('sum', 'minmax', 'nonzero_counts'):
            ev['ax'] = rng.randrange(3)
            ev['max'] = rng.randrange(2)
            ev['nonbinary'] = rng.randrange(2)
        elif name == 'reduce':
            ev['fam'] = rng.randrange(2)
        elif name == 'stats':
            ev['binary'] = rng.randrange(2)
        elif name == 'dataframe':
            ev['dense'] = rng.randrange(2)
        elif name == 'eq':
            same = [i for i in range(len(w.pool))
                    if w.pool[i].ref.same_content(ref) and i != s]
            near = [i for i in range(len(w.pool))
                    if w.pool[i].ref.shape == ref.shape and i != s]
            r = rng.random()
            if same and r < 0.6:
                ev['partner'] = rng.choice(same)
            elif near and r < 0.9:
                ev['partner'] = rng.choice(near)
            else:
                ev['partner'] = self._slot(w)
            ev['form'] = rng.randrange(3)
        elif name == 'text':
            ev['which'] = rng.randrange(4)
        return ev

    def ev_perturb(self, w):
        rng = self.rng
        name = wchoice(rng, self.cfg['perturb'])
        s = self._slot(w)
        ref = w.pool[s].ref
        ev = {'k': 'perturb', 'name': name, 'slot': s, 'ax': rng.randrange(2),
              'i': rng.randrange(12), 'dst': rng.randrange(8)}
        replacing = name in ('sortinv', 'tt', 'copy', 'filterall', 'identity',
                             'rebuild', 'fulldepth')
        if replacing:
            ev['dup'] = int(rng.random() < self.cfg.get('p_dup', 0.3))
            if not ev['dup'] and not self._free(w, s):
                ev['dup'] = 1
        if name == 'sortinv':
            n = ref.n(ev['ax'])
            ev['perm'] = [rng.randrange(12) for _ in range(n)]
            if rng.random() < 0.7:
                ev['ax'] = 1          # the axis that leaves unsorted indices
        elif name == 'rebuild':
            ev.update(route=rng.randrange(len(ROUTES)),
                      salt=rng.randrange(100), ids_as=rng.randrange(4))
        elif name == 'fulldepth':
            ev['seed'] = rng.randrange(10 ** 6)
        return ev

    def ev_spawn(self, w):
        rng = self.rng
        name = wchoice(rng, self.cfg['spawn'])
        ev = {'k': 'spawn', 'name': name, 'slot': self._slot(w),
              'ax': rng.randrange(2)}
        if name == 'iter':
            ev['sparse'] = int(rng.random() < 0.3)
        elif name == 'pairwise':
            ev.update(tri=rng.randrange(2), diag=rng.randrange(2))
        elif name == 'partition':
            ev.update(fam=rng.randrange(CB.N_LABEL), salt=rng.randrange(100),
                      form=rng.choice([0, 0, 1, 2]), rme=int(rng.random() < .3),
                      ign=int(rng.random() < 0.4), keep=rng.randrange(2),
                      dst=rng.randrange(8))
        return ev

    def ev_probe(self, w):
        rng = self.rng
        name = wchoice(rng, self.cfg['probes'])
        ev = {'k': 'probe', 'name': name, 'slot': self._slot(w),
              'salt': rng.randrange(10 ** 6), 'a': rng.randrange(4096),
              'b': rng.randrange(4096), 'c': rng.randrange(4096),
              'dst': rng.randrange(8)}
        return ev

    # ------------------------------------------------------------- next --
    def next(self, w):
        rng, cfg = self.rng, self.cfg
        self.boost = bool(w.readers)
        ev = self._next(w)
        if ev.get('fault') is not None or ev.get('unk') or ev.get('f6'):
            # a fault is armed in this event: look at the same table right
            # afterwards (the property's probe, else a read accessor)
            self.after_fault = ev.get('slot')
        k = ev.get('k')
        if cfg.get('habit') and k in ('op', 'probe') and \
                ev.get('slot') is not None and rng.random() < 0.7:
            self.habit_due = ev['slot']
        if k in ('read', 'probe'):
            self.last_obs[ev.get('slot')] = dict(ev)
        elif k == 'op' and (ev.get('inp') or ev.get('name') in (
                'add_metadata', 'del_metadata')) and \
                ev.get('slot') in self.last_obs and rng.random() < 0.35:
            # observe - mutate in place - observe again the same way: what an
            # accessor or writer remembered about the table must not survive
            # the mutation
            self.reobserve = ev.get('slot')
        return ev

    def _next(self, w):
        rng, cfg = self.rng, self.cfg
        if not w.pool or (len(w.pool) < 2 and rng.random() < 0.7):
            return self.ev_new(w)
        if self.habit_due is not None:
            s, self.habit_due = self.habit_due, None
            if s < len(w.pool) and cfg['habit'] in cfg['perturb']:
                w.stats['bias.habit'] += 1
                return {'k': 'perturb', 'name': cfg['habit'], 'slot': s,
                        'ax': rng.randrange(2), 'i': rng.randrange(12),
                        'dst': rng.randrange(8)}
        if self.reobserve is not None:
            s, self.reobserve = self.reobserve, None
            if s in self.last_obs and s < len(w.pool):
                w.stats['bias.observe_mutate_observe'] += 1
                return dict(self.last_obs[s])
        if self.after_fault is not None:
            s, self.after_fault = self.after_fault, None
            if s is not None and s < len(w.pool) and rng.random() < 0.7:
                if cfg['probes'] and cfg['kinds'].get('probe', 0) > 0:
                    ev = self.ev_probe(w)
                else:
                    ev = self.ev_read(w)
                ev['slot'] = s
                w.stats['bias.look_after_fault'] += 1
                return ev
        kw = dict(cfg['kinds'])
        if not w.readers:
            kw['step'] = 0.0
            kw['drop'] = 0.0
        else:
            kw['step'] = kw['step'] * (1 + len(w.readers))
        if len(w.readers) >= 4:
            kw['spawn'] = 0.0
        if not cfg['probes']:
            kw['probe'] = 0.0
        kind = wchoice(rng, kw)
        if kind == 'new':
            return self.ev_new(w)
        if kind == 'op':
            return self.ev_op(w)
        if kind == 'read':
            return self.ev_read(w)
        if kind == 'perturb':
            return self.ev_perturb(w)
        if kind == 'spawn':
            return self.ev_spawn(w)
        if kind == 'step':
            return {'k': 'step', 'r': rng.randrange(8),
                    'burst': rng.randrange(3)}
        if kind == 'drop':
            return {'k': 'drop', 'r': rng.randrange(8)}
        return self.ev_probe(w)
