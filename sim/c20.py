"""C20: the error-handling profile is honoured and scoped.

Generated programs over seterr / seterrcall / errstate / probes are run by a
recursive interpreter that uses real `with errstate(...)` and `try` statements.
Fault kind F3: every program is run fault-free and then once per statement
position with an exception injected just before that statement (DESIGN 6 C20,
Appendix C).  The model is a stack of profiles."""
import contextlib
import hashlib
import io
import json
import multiprocessing
import os
import random
import sys
import time
import warnings
from collections import Counter
from concurrent.futures import ProcessPoolExecutor, as_completed

import numpy as np

KINDS = ['empty', 'obssize', 'sampsize', 'obsdup', 'sampdup', 'obsmdsize',
         'sampmdsize']
REACTIONS = ['raise', 'ignore', 'warn', 'print', 'call']
DEFAULT = {'empty': 'ignore', 'obssize': 'raise', 'sampsize': 'raise',
           'obsdup': 'raise', 'sampdup': 'raise', 'obsmdsize': 'raise',
           'sampmdsize': 'raise'}
MESSAGES = {'empty': 'Empty table!',
            'obssize': 'Number of observation IDs differs from matrix size!',
            'sampsize': 'Number of sample IDs differs from matrix size!',
            'obsdup': 'Duplicate observation IDs',
            'sampdup': 'Duplicate sample IDs!',
            'obsmdsize': 'Size of observation metadata differs from matrix '
                         'size!',
            'sampmdsize': 'Size of sample metadata differs from matrix size!'}


class C20Violation(Exception):
    def __init__(self, oracle, detail):
        Exception.__init__(self, '%s: %s' % (oracle, detail))
        self.oracle = oracle
        self.detail = detail


class InjectedFault(Exception):
    pass


class UserExit(Exception):
    """a `with` body that ends by raising"""


class BaseExit(BaseException):
    """a block left by something that is not an Exception (the family of
    KeyboardInterrupt, SystemExit, GeneratorExit)"""


# ------------------------------------------------------------- generation --
def gen_kwargs(rng, allow_invalid=True):
    r = rng.random()
    if r < 0.15:
        kw = {'all': rng.choice(REACTIONS)}
        if allow_invalid and rng.random() < 0.15:
            kw['all'] = rng.choice(['bogus', 'Raise', ''])
        if rng.random() < 0.3:
            kw[rng.choice(KINDS)] = rng.choice(REACTIONS)
        return kw
    kw = {}
    for k in rng.sample(KINDS, rng.randint(1, 3)):
        kw[k] = rng.choice(REACTIONS)
    if allow_invalid and rng.random() < 0.12:
        if rng.random() < 0.5:
            kw['bogus'] = rng.choice(REACTIONS)
        else:
            kw[rng.choice(KINDS)] = 'explode'
        # order matters for partial application: shuffle deterministically
        items = list(kw.items())
        rng.shuffle(items)
        kw = dict(items)
    return kw


def gen_block(rng, depth, budget):
    out = []
    n = rng.randint(1, 4)
    for _ in range(n):
        if budget[0] <= 0:
            break
        budget[0] -= 1
        r = rng.random()
        if r < 0.22:
            out.append(['seterr', gen_kwargs(rng)])
        elif r < 0.30:
            kind = rng.choice(KINDS) if rng.random() < 0.9 else 'bogus'
            out.append(['seterrcall', kind, rng.randrange(4)])
        elif r < 0.62 or depth >= 4:
            out.append(['probe', rng.choice(KINDS), int(rng.random() < 0.8),
                        rng.randrange(4)])
        elif r < 0.88:
            out.append(['with', gen_kwargs(rng),
                        gen_block(rng, depth + 1, budget),
                        rng.choice(['raise', 'raise', 'raise_base'])
                        if rng.random() < 0.3 else 'normal'])
        else:
            out.append(['try', gen_block(rng, depth + 1, budget)])
    return out


def gen_program(rng):
    budget = [rng.randint(3, 12)]
    return gen_block(rng, 1, budget)


def count_statements(block):
    n = 0
    for st in block:
        n += 1
        if st[0] == 'with':
            n += count_statements(st[2])
        elif st[0] == 'try':
            n += count_statements(st[1])
    return n


def max_depth(block, d=1):
    m = d
    for st in block:
        if st[0] == 'with':
            m = max(m, max_depth(st[2], d + 1))
        elif st[0] == 'try':
            m = max(m, max_depth(st[1], d + 1))
    return m


# ------------------------------------------------------------------ probes --
def _trip(kind, form):
    """perform a real operation that trips exactly `kind` (and nothing that
    sorts before it); returns the offending table if the call returns"""
    from biom import Table
    m = np.array([[1.0, 2.0], [3.0, 4.0]])
    if kind == 'empty':
        if form == 0:
            return Table(np.zeros((0, 0)), [], [])
        t = Table(m, ['a', 'b'], ['x', 'y'])
        if form == 1:
            return t.filter(lambda v, i, md: False, inplace=False)
        return t.filter([], axis='observation', inplace=False)
    if kind == 'obssize':
        return Table(m, ['a', 'b', 'b'], ['x', 'y'])
    if kind == 'sampsize':
        return Table(m, ['a', 'b'], ['x', 'y', 'y'])
    if kind in ('obsdup', 'sampdup') and form == 2:
        # the filter call site: an offending table (built inside a nested,
        # properly scoped 'ignore' block) is filtered in place under the
        # program's current profile
        from biom.err import errstate
        with errstate(all='ignore'):
            if kind == 'obsdup':
                t = Table(m, ['a', 'a'], ['x', 'y'])
            else:
                t = Table(m, ['a', 'b'], ['x', 'x'])
        return t.filter(lambda v, i, md: True,
                        axis='sample' if kind == 'obsdup' else 'observation',
                        inplace=True)
    if kind in ('obsdup', 'sampdup') and form == 3:
        # the construction route of the classic-text reader
        if kind == 'obsdup':
            lines = ['#OTU ID\tx\ty', 'a\t1.0\t2.0', 'a\t3.0\t4.0']
        else:
            lines = ['#OTU ID\tx\tx', 'a\t1.0\t2.0', 'b\t3.0\t4.0']
        return Table.from_tsv(lines, None, None, lambda x: x)
    if kind == 'obsdup':
        if form == 1:
            t = Table(m, ['a', 'b'], ['x', 'y'])
            return t.update_ids({'a': 'b'}, axis='observation', strict=False,
                                inplace=False)
        return Table(m, ['a', 'a'], ['x', 'y'])
    if kind == 'sampdup':
        if form == 1:
            t = Table(m, ['a', 'b'], ['x', 'y'])
            return t.update_ids({'x': 'y'}, axis='sample', strict=False,
                                inplace=False)
        return Table(m, ['a', 'b'], ['x', 'x'])
    # metadata too short (1 entry), empty (no entry at all) or too long
    bad_md = [[{'k': 1}], [], [{'k': 1}, {'k': 2}, {'k': 3}]][form % 3]
    if kind == 'obsmdsize':
        return Table(m, ['a', 'b'], ['x', 'y'], bad_md)
    if kind == 'sampmdsize':
        return Table(m, ['a', 'b'], ['x', 'y'], None, bad_md)
    raise ValueError(kind)


def _no_trip(form):
    from biom import Table
    m = np.array([[1.0, 0.0], [3.0, 4.0]])
    t = Table(m, ['a', 'b'], ['x', 'y'], [{'k': 1}, {'k': 2}])
    if form == 1:
        return t.filter(['a'], axis='observation', inplace=False)
    if form == 2:
        return t.update_ids({'a': 'c'}, axis='observation', strict=False,
                            inplace=False)
    return t


class Ctx:
    def __init__(self, fault_at):
        self.fault_at = fault_at
        self.counter = 0
        self.stack = [dict(DEFAULT)]
        self.cbs = {}
        self.cb_objs = {}
        self.calls = []
        self.trace = []
        self.stats = Counter()
        self.fault_fired = False

    def top(self):
        return self.stack[-1]


class CallbackBoom(Exception):
    """raised by the registered callback itself (fault: a reaction that
    fails)"""


def _cb(ctx, idx):
    if idx not in ctx.cb_objs:
        def handler(table, _idx=idx):
            ctx.calls.append((_idx, table))
            if _idx == 3:
                raise CallbackBoom('callback %d failed' % _idx)
            return None
        ctx.cb_objs[idx] = handler
    return ctx.cb_objs[idx]


def check_profile(ctx, where):
    from biom.err import geterr, geterrcall
    got = geterr()
    if got != ctx.top():
        raise C20Violation('c20.profile', '%s: profile is %r, the scoped '
                           'stack model says %r' % (where, got, ctx.top()))
    for k, f in ctx.cbs.items():
        if geterrcall(k) is not f:
            raise C20Violation('c20.callback', '%s: geterrcall(%r) is not the '
                               'registered callback' % (where, k))


def _valid_kwargs(kw):
    if 'all' in kw:
        return kw['all'] in REACTIONS
    return all(k in KINDS and v in REACTIONS for k, v in kw.items())


def _apply(profile, kw):
    new = dict(profile)
    if 'all' in kw:
        for k in new:
            new[k] = kw['all']
    else:
        new.update(kw)
    return new


def do_probe(ctx, kind, trigger, form):
    from biom.exception import TableException
    want = ctx.top()[kind] if trigger else None
    ctx.stats['probe.%s' % (want or 'clean')] += 1
    ctx.calls[:] = []
    out = io.StringIO()
    exc = None
    boom = None
    ret = None
    import biom.err as _err
    # (if the module keeps no such attribute and looks sys.stdout up when it
    # prints, redirect_stdout below is the seam)
    has_attr = hasattr(_err, 'stdout')
    saved_stdout = getattr(_err, 'stdout', None)
    # biom.err binds sys.stdout at import time ('from sys import stdout'); the
    # module attribute is the seam for the 'print' reaction
    if has_attr:
        _err.stdout = out
    try:
        with warnings.catch_warnings(record=True) as caught:
            warnings.simplefilter('always')
            with contextlib.redirect_stdout(out):
                try:
                    ret = _trip(kind, form) if trigger else _no_trip(form)
                except TableException as e:
                    exc = e
                except CallbackBoom as e:
                    boom = e
    finally:
        if has_attr:
            _err.stdout = saved_stdout
    where = 'probe(%s, trigger=%s, form=%d) under %r' % (kind, trigger, form,
                                                        want)
    warned = [str(c.message) for c in caught]
    printed = out.getvalue()
    called = list(ctx.calls)
    msg = MESSAGES[kind]
    if boom is not None:
        # the callback's own exception came out: legitimate only when the
        # reaction is 'call', the failing callback is the registered one and
        # it was invoked once; the profile must survive it (checked after
        # every statement), and later probes must react as configured
        if want == 'call' and kind in ctx.cbs and len(called) == 1 and \
                ctx.cb_objs.get(called[0][0]) is ctx.cbs[kind] and \
                not warned and not printed:
            ctx.stats['probe.callback_raised'] += 1
            return 'callback-raised'
        raise C20Violation('c20.reaction', where + ': a callback raised '
                           'although it should not have been invoked '
                           '(callbacks=%r)' % ([c[0] for c in called],))
    if want == 'raise':
        if exc is None:
            raise C20Violation('c20.reaction', where + ': no TableException')
        if warned or printed or called:
            raise C20Violation('c20.reaction', where + ': extra reactions '
                               'warn=%r print=%r call=%d'
                               % (warned, printed, len(called)))
        return 'raised'
    if exc is not None:
        raise C20Violation('c20.reaction', where + ': raised %r' % (exc,))
    # the wording of the message is not part of the property: one warning /
    # one printed line
    if want == 'warn':
        ok = len(warned) == 1 and not printed and not called
    elif want == 'print':
        ok = printed.endswith('\n') and printed.count('\n') == 1 and \
            len(printed) > 1 and not warned and not called
    elif want == 'call':
        # the registered callback (if any) was invoked with the table
        if kind in ctx.cbs:
            ok = len(called) == 1 and not warned and not printed and \
                called[0][1] is not None and \
                type(called[0][1]).__name__ == 'Table' and \
                ctx.cb_objs.get(called[0][0]) is ctx.cbs[kind]
        else:
            ok = not warned and not printed and not called
    else:   # ignore / clean
        ok = not warned and not printed and not called
    if not ok:
        raise C20Violation('c20.reaction', where + ': observed warn=%r '
                           'print=%r callbacks=%d' % (warned, printed,
                                                      len(called)))
    return 'passed'


def exec_block(block, ctx):
    from biom.err import seterr, seterrcall, errstate
    for st in block:
        idx = ctx.counter
        ctx.counter += 1
        if idx == ctx.fault_at:
            ctx.fault_fired = True
            if idx % 3 == 2:
                raise BaseExit('before statement %d' % idx)
            raise InjectedFault('before statement %d' % idx)
        op = st[0]
        ctx.stats['stmt.' + op] += 1
        if op == 'seterr':
            kw = st[1]
            if _valid_kwargs(kw):
                before = dict(ctx.top())
                old = seterr(**kw)
                if old != before:
                    raise C20Violation('c20.seterr', 'seterr returned %r as '
                                       'the old profile, it was %r'
                                       % (old, before))
                ctx.stack[-1] = _apply(ctx.top(), kw)
                ctx.trace.append('seterr')
            else:
                ctx.stats['refused.seterr'] += 1
                try:
                    seterr(**kw)
                    raise C20Violation('c20.refusal', 'seterr(%r) was '
                                       'accepted' % (kw,))
                except KeyError:
                    pass
                ctx.trace.append('seterr-refused')
        elif op == 'seterrcall':
            kind, cbi = st[1], st[2]
            f = _cb(ctx, cbi)
            if kind in KINDS:
                seterrcall(kind, f)
                ctx.cbs[kind] = f
                ctx.trace.append('seterrcall')
            else:
                ctx.stats['refused.seterrcall'] += 1
                try:
                    seterrcall(kind, f)
                    raise C20Violation('c20.refusal', 'seterrcall(%r) was '
                                       'accepted' % (kind,))
                except KeyError:
                    pass
                ctx.trace.append('seterrcall-refused')
        elif op == 'probe':
            ctx.trace.append('probe:' + do_probe(ctx, st[1], bool(st[2]),
                                                 st[3]))
        elif op == 'with':
            kw, body, how = st[1], st[2], st[3]
            if not _valid_kwargs(kw):
                ctx.stats['refused.errstate'] += 1
                entered = False
                try:
                    with errstate(**kw):
                        entered = True
                except KeyError:
                    pass
                if entered:
                    raise C20Violation('c20.refusal', 'errstate(%r) was '
                                       'accepted' % (kw,))
                ctx.trace.append('with-refused')
                # its body never runs; statement numbering stays stable
                ctx.counter += count_statements(body)
            else:
                ctx.stack.append(_apply(ctx.top(), kw))
                ctx.stats['depth.%d' % len(ctx.stack)] += 1
                try:
                    with errstate(**kw):
                        check_profile(ctx, 'inside errstate(%r)' % (kw,))
                        exec_block(body, ctx)
                        if how == 'raise':
                            raise UserExit()
                        if how == 'raise_base':
                            raise BaseExit()
                except C20Violation:
                    raise
                except BaseException:
                    ctx.stack.pop()
                    ctx.stats['with.exit_by_exception'] += 1
                    if len(ctx.stack) >= 2:
                        ctx.stats['with.exit_by_exception.depth2+'] += 1
                    check_profile(ctx, 'after errstate(%r) left by exception'
                                  % (kw,))
                    ctx.trace.append('with-exc')
                    raise
                else:
                    ctx.stack.pop()
                    ctx.stats['with.exit_normal'] += 1
                    ctx.trace.append('with-ok')
        elif op == 'try':
            try:
                exec_block(st[1], ctx)
                ctx.trace.append('try-ok')
            except (InjectedFault, UserExit, BaseExit):
                ctx.stats['try.caught'] += 1
                ctx.trace.append('try-caught')
            except C20Violation:
                raise
            except Exception as e:  # noqa  (TableException from a probe)
                from biom.exception import TableException
                if not isinstance(e, TableException):
                    raise
                ctx.trace.append('try-caught-te')
        else:
            raise ValueError(op)
        check_profile(ctx, 'after statement %d %r' % (idx, st[:2]))


def reset_library():
    from biom.err import seterr, seterrcall
    seterr(**DEFAULT)
    for k in KINDS:
        seterrcall(k, _default_cb)


def _default_cb(x):
    return None


def run_program(prog, fault_at):
    """returns (violation-or-None, ctx)"""
    reset_library()
    ctx = Ctx(fault_at)
    viol = None
    try:
        try:
            exec_block(prog, ctx)
        except (InjectedFault, UserExit, BaseExit):
            ctx.trace.append('escaped')
        # all blocks have exited: the profile is the bottom of the stack
        if len(ctx.stack) != 1:
            raise RuntimeError('harness: model stack depth %d'
                               % len(ctx.stack))
        check_profile(ctx, 'after the program')
    except C20Violation as v:
        viol = {'oracle': v.oracle, 'detail': v.detail}
    finally:
        reset_library()
    return viol, ctx


def sweep(prog):
    """fault-free run + one run per statement position.  Returns (first
    violation with its fault position or None, stats, executions, digest)"""
    n = count_statements(prog)
    stats = Counter()
    h = hashlib.sha256(json.dumps(prog).encode())
    execs = 0
    for fault_at in [None] + list(range(n)):
        viol, ctx = run_program(prog, fault_at)
        execs += 1
        stats.update(ctx.stats)
        if fault_at is not None:
            stats['fault.F3.armed'] += 1
            if ctx.fault_fired:
                stats['fault.F3.fired'] += 1
        h.update(('|%r:%s' % (fault_at, ','.join(ctx.trace))).encode())
        if viol:
            viol['fault_at'] = fault_at
            return viol, stats, execs, h.hexdigest()
    return None, stats, execs, h.hexdigest()


# ------------------------------------------------------------------ shrink --
def _variants(block):
    """programs with one statement removed or one block unwrapped"""
    for i, st in enumerate(block):
        yield block[:i] + block[i + 1:]
        if st[0] == 'with':
            yield block[:i] + st[2] + block[i + 1:]
            for sub in _variants(st[2]):
                yield block[:i] + [['with', st[1], sub, st[3]]] + block[i + 1:]
            if st[3] != 'normal':
                yield block[:i] + [['with', st[1], st[2], 'normal']] + \
                    block[i + 1:]
        elif st[0] == 'try':
            yield block[:i] + st[1] + block[i + 1:]
            for sub in _variants(st[1]):
                yield block[:i] + [['try', sub]] + block[i + 1:]


def shrink(prog, viol, budget_s=20.0):
    t0 = time.time()
    cur, curv = prog, viol
    progress = True
    while progress and time.time() - t0 < budget_s:
        progress = False
        for cand in _variants(cur):
            if not cand:
                continue
            v, _, _, _ = sweep(cand)
            if v and v['oracle'] == curv['oracle']:
                cur, curv = cand, v
                progress = True
                break
    return cur, curv


# ------------------------------------------------------------------ driver --
def worker(args):
    seeds, deadline = args
    agg = {'programs': 0, 'executions': 0, 'stats': Counter(),
           'violations': [], 'samples': [], 'digests': {}, 'shapes': set(),
           'truncated': False}
    for seed in seeds:
        if time.time() > deadline:
            agg['truncated'] = True
            break
        rng = random.Random('%d:c20' % seed)
        prog = gen_program(rng)
        viol, stats, execs, dig = sweep(prog)
        agg['programs'] += 1
        agg['executions'] += execs
        agg['stats'].update(stats)
        agg['digests'][seed] = dig
        agg['shapes'].add(json.dumps(_shape(prog)))
        if len(agg['samples']) < 2:
            agg['samples'].append({'seed': seed, 'program': prog})
        if viol and len(agg['violations']) < 3:
            small, sv = shrink(prog, viol)
            agg['violations'].append({'seed': seed, 'program': small,
                                      'viol': sv, 'from': count_statements(
                                          prog)})
    agg['shapes'] = sorted(agg['shapes'])
    return agg


def _shape(block):
    """abstract shape of a program: statement kinds, nesting, kwargs class"""
    out = []
    for st in block:
        if st[0] == 'with':
            out.append(['with', 'all' if 'all' in st[1] else
                        ('bad' if not _valid_kwargs(st[1]) else 'kw'),
                        _shape(st[2]), st[3]])
        elif st[0] == 'try':
            out.append(['try', _shape(st[1])])
        elif st[0] == 'probe':
            out.append(['probe', st[1], st[2]])
        elif st[0] == 'seterr':
            out.append(['seterr', 'all' if 'all' in st[1] else
                        ('bad' if not _valid_kwargs(st[1]) else 'kw')])
        else:
            out.append([st[0], st[1] in KINDS])
    return out


def write_replay(prop, seed, prog, viol, minimised_from):
    from .runner import VERIF
    outdir = os.path.join(VERIF, 'replays')
    os.makedirs(outdir, exist_ok=True)
    short = hashlib.sha1(json.dumps(prog).encode()).hexdigest()[:10]
    path = os.path.join(outdir, '%s-%d-%s.json' % (prop, seed, short))
    _, _, _, dig = sweep(prog)
    with open(path, 'w') as f:
        json.dump({'property': prop, 'engine': 'c20', 'seed': seed,
                   'oracle': viol['oracle'], 'program': prog,
                   'fault_at': viol.get('fault_at'),
                   'violation': viol, 'digest': dig,
                   'minimised_from': minimised_from}, f, indent=1)
    return path


def replay(doc):
    viol, stats, execs, dig = sweep(doc['program'])
    if viol:
        viol['event'] = viol.get('fault_at') if viol.get('fault_at') \
            is not None else -1
    return viol, dig


def check(tier, args):
    from .runner import VERIF
    from .driver import base_seed
    t0 = time.time()
    nprog = args.runs or (60000 if tier == "quick" else 600000)
    budget = args.budget or (150.0 if tier == 'quick' else 900.0)
    b = base_seed()
    seeds = [b * 1000003 + i for i in range(nprog)]
    nw = max(1, min(args.workers, len(seeds)))
    nblocks = nw * 4
    blocks = [seeds[i::nblocks] for i in range(nblocks)]
    blocks = [x for x in blocks if x]
    deadline = t0 + budget
    ctx = multiprocessing.get_context('fork')
    aggs, harness = [], []

    def run_pool(todo, dl):
        gone = []
        with ProcessPoolExecutor(max_workers=nw, mp_context=ctx) as ex:
            futs = {ex.submit(worker, (blk, dl)): blk for blk in todo}
            for f in as_completed(futs):
                try:
                    aggs.append(f.result())
                except Exception as e:  # noqa
                    gone.append((futs[f], e))
        return gone
    gone = run_pool(blocks, deadline)
    if gone:
        # a dead worker (watchdog / OOM killer on an overloaded machine)
        # breaks the pool and loses every unfinished block: run them again
        print('NOTE: worker pool broke (%r); %d blocks are run again'
              % (gone[0][1], len(gone)))
        gone = run_pool([blk for blk, _ in gone], time.time() + budget)
    for _, e in gone:
        import traceback
        harness.append(''.join(traceback.format_exception(e))[-2000:])
    tot = {'programs': 0, 'executions': 0, 'stats': Counter(),
           'violations': [], 'samples': [], 'digests': {}, 'shapes': set(),
           'truncated': False}
    for a in aggs:
        tot['programs'] += a['programs']
        tot['executions'] += a['executions']
        tot['stats'].update(a['stats'])
        tot['violations'] += a['violations']
        tot['samples'] += a['samples']
        tot['digests'].update(a['digests'])
        tot['shapes'] |= set(a['shapes'])
        tot['truncated'] = tot['truncated'] or a['truncated']
    wall = time.time() - t0
    if args.digests:
        with open(args.digests, 'w') as f:
            json.dump({str(k): v for k, v in sorted(tot['digests'].items())},
                      f)
    paths = []
    for v in sorted(tot['violations'],
                    key=lambda v: count_statements(v['program']))[:5]:
        paths.append((write_replay('C20', v['seed'], v['program'], v['viol'],
                                   v['from']), v))
    if not args.no_evidence:
        st = tot['stats']
        ev = {
            'property_id': 'C20', 'tier': tier, 'seed': b,
            'level': 'fault_enumeration',
            'coverage': {
                'evaluations': tot['executions'],
                'distinct_nontrivial': len(tot['shapes']),
                'rule': 'seeded generator of programs over seterr / '
                        'seterrcall / errstate (nested, with all=, invalid '
                        'kinds and reactions, exit normally or by raising) / '
                        'try / probes that trip exactly one error kind through '
                        'real table constructions, filters and update_ids; '
                        'every program is executed fault-free and once per '
                        'statement position with an exception injected there '
                        '(exhaustive over positions); distinct = distinct '
                        'abstract program shapes (statement kinds, nesting, '
                        'kwargs class, probe kind) with at least one scoped '
                        'block or probe',
                'samples': tot['samples'][:3],
                'exhaustive': False,
                'programs': tot['programs'],
                'program_executions': tot['executions'],
                'programs_per_hour': int(tot['programs'] / wall * 3600)
                if wall else 0,
                'faults': {'F3': {'armed': st.get('fault.F3.armed', 0),
                                  'fired': st.get('fault.F3.fired', 0)}},
                'statements': {k[5:]: v for k, v in st.items()
                               if k.startswith('stmt.')},
                'probes_by_reaction': {k[6:]: v for k, v in st.items()
                                       if k.startswith('probe.')},
                'refusals': {k[8:]: v for k, v in st.items()
                             if k.startswith('refused.')},
                'errstate_exits': {'normal': st.get('with.exit_normal', 0),
                                   'by_exception':
                                   st.get('with.exit_by_exception', 0),
                                   'by_exception_at_depth>=2':
                                   st.get('with.exit_by_exception.depth2+',
                                          0)},
                'nesting_depth_reached': {k[6:]: v for k, v in st.items()
                                          if k.startswith('depth.')},
                'wall_cap_hit': tot['truncated'],
                'components': {'real': ['biom.err (process-global profile)',
                                        'Table constructor, filter, '
                                        'update_ids (errcheck call sites)'],
                               'simulated': ['the program (schedule of '
                                             'configuration calls)',
                                             'injected exceptions',
                                             'callbacks, warnings/stdout '
                                             'capture']},
                'simulated_time': 'none: no clock in this property',
            },
            'assumptions': ['LIFO use of errstate only (non-LIFO interleaving '
                            'of scoped overrides is outside the quantifier)',
                            'sampling over programs; exhaustive over fault '
                            'positions of each program'],
            'wall_s': round(wall, 2), 'violations': len(tot['violations']),
        }
        os.makedirs(os.path.join(VERIF, 'evidence'), exist_ok=True)
        with open(os.path.join(VERIF, 'evidence', 'C20.json'), 'w') as f:
            json.dump(ev, f, indent=1, sort_keys=True, default=str)
    for h in harness[:3]:
        print('HARNESS-ERROR: %s' % h)
    if paths:
        for p, v in paths:
            print('VIOLATION property=C20 replay=%s' % p)
            print('  oracle=%s seed=%d fault_at=%r: %s'
                  % (v['viol']['oracle'], v['seed'], v['viol'].get('fault_at'),
                     v['viol']['detail'][:500]))
        return 1
    if harness:
        return 2
    print('OK property=C20 tier=%s programs=%d executions=%d shapes=%d '
          'wall=%.1fs%s' % (tier, tot['programs'], tot['executions'],
                            len(tot['shapes']), wall,
                            ' (wall cap hit)' if tot['truncated'] else ''))
    return 0
