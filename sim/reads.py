"""Perturbing read accessors (`read` events) and suspended reader tasks
(`spawn` / `step` / `drop` events).  DESIGN 3.2, 4.2."""
import operator
import functools

import numpy as np

from .model import AXNAME, canon_md, plain
from .observe import md_equal
from .world import Reader, MAX_READERS
from . import callbacks as CB

AX3 = ('observation', 'sample', 'whole')


def exact_matrix(m):
    """every value an integer or dyadic fraction k/2**10 of modest size: any
    order of summation then gives the same double (DESIGN 4.3)"""
    m = np.asarray(m, dtype=float)
    if m.size == 0:
        return True
    with np.errstate(all='ignore'):
        s = m * 1024.0
        # the sum of all magnitudes, in units of 2**-10, must still fit the
        # 53-bit significand: then every partial sum in any order is exact
        return bool(np.isfinite(s).all() and (s == np.round(s)).all() and
                    np.abs(s).sum() < 2.0 ** 52)


def _num_eq(w, got, want, src=None):
    got = np.asarray(got, dtype=float)
    want = np.asarray(want, dtype=float)
    if got.shape != want.shape:
        return False
    if np.array_equal(got, want):
        return True
    if not (np.isfinite(got).all() and np.isfinite(want).all()):
        return True     # a sum overflowed: outside the domain (finite values)
    if src is not None and exact_matrix(src):
        return False
    scale = np.abs(src).sum() if src is not None and np.size(src) else \
        (np.abs(want).sum() if want.size else 0.0)
    with np.errstate(all='ignore'):
        return bool(np.allclose(got, want, rtol=1e-9, atol=1e-9 * scale))


def _md1(md):
    return None if md is None else {k: plain(v) for k, v in dict(md).items()}


def _md_eq1(a, b):
    return md_equal([a or {}], [b or {}])


def _dense_item(v):
    if hasattr(v, 'toarray'):
        v = v.toarray()
    return np.asarray(v, dtype=float).ravel()


def _cmp_vec_item(got, want):
    """(vals, id, md) items"""
    gv, gi, gm = got
    wv, wi, wm = want
    gv = _dense_item(gv)
    if str(gi) != wi:
        return 'id %r, expected %r' % (str(gi), wi)
    if gv.shape != wv.shape or not np.array_equal(gv, wv):
        return 'vector for %r is %r, expected %r' % (wi, gv.tolist(),
                                                     wv.tolist())
    if not _md_eq1(_md1(gm), wm):
        return 'metadata for %r is %r, expected %r' % (wi, _md1(gm), wm)
    return None


def _cmp_data_item(got, want):
    gv = _dense_item(got)
    if gv.shape != want.shape or not np.array_equal(gv, want):
        return 'vector %r, expected %r' % (gv.tolist(), want.tolist())
    return None


def _cmp_pair_item(got, want):
    for g, x in zip(got, want):
        d = _cmp_vec_item(g, x)
        if d:
            return d
    return None


def _cmp_nz_item(got, want):
    g = (str(got[0]), str(got[1]))
    return None if g == want else 'cell %r, expected %r' % (g, want)


def _items_iter(ref, ax):
    return [(ref.vec(ax, i), ref.ids[ax][i], ref.md_or_none(ax, i))
            for i in range(ref.n(ax))]


def _items_pairwise(ref, ax, tri, diag):
    base = _items_iter(ref, ax)
    n = len(base)
    out = []
    for i in range(n):
        for j in range(n):
            if i == j and not diag:
                continue
            if tri and j < i:
                continue
            out.append((base[i], base[j]))
    return out


def _items_nonzero(ref):
    out = []
    for r in range(ref.n(0)):
        for c in range(ref.n(1)):
            if ref.m[r, c] != 0:
                out.append((ref.ids[0][r], ref.ids[1][c]))
    return out


# =================================================================== reads ==
def ev_read(w, ev):
    slot = w.slot(ev.get('slot', 0))
    if slot is None:
        return 'skip:nopool'
    name = ev['name']
    w.stats['read.' + name] += 1
    w.touch_readers(slot)
    t, ref = slot.real, slot.ref
    fn = READS[name]
    return fn(w, ev, slot, t, ref)


def rd_data(w, ev, slot, t, ref):
    ax = ev.get('ax', 0) & 1
    i = ev.get('i', 0) % ref.n(ax)
    dense = not ev.get('sparse')
    w.case('accessor.data', 'data', slot, ax=ax, dense=dense)
    if ev.get('pos'):
        got = t.data(ref.ids[ax][i], AXNAME[ax], dense)
    else:
        got = t.data(ref.ids[ax][i], axis=AXNAME[ax], dense=dense)
    d = _cmp_data_item(got, ref.vec(ax, i))
    if d:
        w.fail('accessor.data', 'data(%r, %s): %s' % (ref.ids[ax][i],
                                                      AXNAME[ax], d))
    return 'data'


def rd_value(w, ev, slot, t, ref):
    r = ev.get('i', 0) % ref.n(0)
    c = ev.get('j', 0) % ref.n(1)
    w.case('accessor.value', 'get_value_by_ids', slot)
    got = t.get_value_by_ids(ref.ids[0][r], ref.ids[1][c])
    if float(got) != ref.m[r, c]:
        w.fail('accessor.value', 'get_value_by_ids(%r, %r) = %r, expected %r'
               % (ref.ids[0][r], ref.ids[1][c], float(got),
                  float(ref.m[r, c])))
    got2 = t[r, c]
    if float(got2) != ref.m[r, c]:
        w.fail('accessor.value', 't[%d, %d] = %r, expected %r'
               % (r, c, float(got2), float(ref.m[r, c])))
    return 'value'


def rd_getslice(w, ev, slot, t, ref):
    ax = ev.get('ax', 0) & 1
    i = ev.get('i', 0) % ref.n(ax)
    w.case('accessor.data', 'getitem', slot, ax=ax)
    got = t[i, :] if ax == 0 else t[:, i]
    d = _cmp_data_item(got, ref.vec(ax, i))
    if d:
        w.fail('accessor.data', 'row/column slice %d on %s: %s'
               % (i, AXNAME[ax], d))
    return 'getslice'


def _consume(w, oracle, what, gen, expected, cmp):
    k = 0
    for item in gen:
        if k >= len(expected):
            w.fail(oracle, '%s yielded more than %d items' % (what,
                                                              len(expected)))
        d = cmp(item, expected[k])
        if d:
            w.fail(oracle, '%s item %d: %s' % (what, k, d))
        k += 1
    if k != len(expected):
        w.fail(oracle, '%s yielded %d items, expected %d' % (what, k,
                                                             len(expected)))


def rd_iter(w, ev, slot, t, ref):
    ax = ev.get('ax', 0) & 1
    dense = not ev.get('sparse')
    w.case('accessor.iter', 'iter', slot, ax=ax, dense=dense)
    if ev.get('dunder') and ax == 1 and dense:
        gen = iter(t)
    elif ev.get('pos'):
        gen = t.iter(dense, AXNAME[ax])
    else:
        gen = t.iter(dense=dense, axis=AXNAME[ax])
    _consume(w, 'accessor.iter', 'iter(%s)' % AXNAME[ax], gen,
             _items_iter(ref, ax), _cmp_vec_item)
    return 'iter'


def rd_iter_data(w, ev, slot, t, ref):
    ax = ev.get('ax', 0) & 1
    dense = not ev.get('sparse')
    w.case('accessor.iter', 'iter_data', slot, ax=ax, dense=dense)
    _consume(w, 'accessor.iter', 'iter_data(%s)' % AXNAME[ax],
             t.iter_data(dense, AXNAME[ax]) if ev.get('pos') else
             t.iter_data(dense=dense, axis=AXNAME[ax]),
             [ref.vec(ax, i) for i in range(ref.n(ax))], _cmp_data_item)
    return 'iter_data'


def rd_pairwise(w, ev, slot, t, ref):
    ax = ev.get('ax', 0) & 1
    if ref.n(ax) > 6:
        return 'skip:large'
    tri, diag = bool(ev.get('tri', 1)), bool(ev.get('diag', 0))
    w.case('accessor.pairwise', 'iter_pairwise', slot, ax=ax, tri=tri,
           diag=diag)
    _consume(w, 'accessor.pairwise',
             'iter_pairwise(%s, tri=%s, diag=%s)' % (AXNAME[ax], tri, diag),
             t.iter_pairwise(True, AXNAME[ax], tri, diag) if ev.get('pos')
             else t.iter_pairwise(axis=AXNAME[ax], tri=tri, diag=diag),
             _items_pairwise(ref, ax, tri, diag), _cmp_pair_item)
    return 'pairwise'


def rd_nonzero(w, ev, slot, t, ref):
    w.case('accessor.nonzero', 'nonzero', slot)
    got = sorted((str(a), str(b)) for a, b in t.nonzero())
    want = sorted(_items_nonzero(ref))
    if got != want:
        w.fail('accessor.nonzero', 'nonzero() lists %r, cells with a '
               'non-zero value are %r' % (got, want),
               finding='C05.nonzero_lists_stored_zero')
    return 'nonzero'


def rd_sum(w, ev, slot, t, ref):
    axis = ev.get('ax', 2) % 3
    w.case('summary.sum', 'sum', slot, ax=axis)
    got = t.sum(AX3[axis]) if ev.get('pos') else t.sum(axis=AX3[axis])
    if axis == 2:
        want = ref.m.sum()
    else:
        want = ref.m.sum(axis=1 - axis)
    got = np.asarray(got, dtype=float)
    if axis != 2 and got.shape != (ref.n(axis),):
        w.fail('summary.sum', 'sum(%s) has shape %r for %d ids'
               % (AX3[axis], got.shape, ref.n(axis)))
    if not _num_eq(w, got.reshape(np.shape(want)) if got.size == np.size(want)
                   else got, want, ref.m):
        w.fail('summary.sum', 'sum(%s) = %r, dense sum %r'
               % (AX3[axis], got.tolist(), np.asarray(want).tolist()))
    return 'sum'


def rd_nnz(w, ev, slot, t, ref):
    w.case('summary.nnz', 'nnz', slot)
    want = int((ref.m != 0).sum())
    got = t.nnz
    if got != want:
        w.fail('summary.nnz', 'nnz = %r, non-zero cells %d' % (got, want))
    dens = t.get_table_density()
    wd = want / float(ref.m.size) if ref.m.size else 0.0
    if abs(dens - wd) > 1e-12:
        w.fail('summary.density', 'density = %r, expected %r' % (dens, wd))
    return 'nnz'


def rd_density_first(w, ev, slot, t, ref):
    w.case('summary.density', 'density', slot)
    want = int((ref.m != 0).sum())
    dens = t.get_table_density()
    wd = want / float(ref.m.size) if ref.m.size else 0.0
    if abs(dens - wd) > 1e-12:
        w.fail('summary.density', 'density = %r, expected %r' % (dens, wd))
    return 'density'


def rd_minmax(w, ev, slot, t, ref):
    axis = ev.get('ax', 1) % 3
    which = 'max' if ev.get('max') else 'min'
    m = ref.m
    chk_ax = 1 if axis == 2 else axis
    nzrows = [(ref.vec(chk_ax, i) != 0).any() for i in range(ref.n(chk_ax))]
    if not all(nzrows):
        return 'skip:empty_vector'
    w.case('summary.minmax', which, slot, ax=axis)
    f = np.min if which == 'min' else np.max
    if axis == 2:
        want = f(m[m != 0])
    else:
        want = np.array([f(v[v != 0]) for v in
                         (ref.vec(axis, i) for i in range(ref.n(axis)))])
    got = getattr(t, which)(AX3[axis]) if ev.get('pos') else \
        getattr(t, which)(axis=AX3[axis])
    if not np.array_equal(np.asarray(got, dtype=float),
                          np.asarray(want, dtype=float)):
        w.fail('summary.minmax', '%s(%s) = %r, expected %r over non-zero '
               'values' % (which, AX3[axis], np.asarray(got).tolist(),
                           np.asarray(want).tolist()),
               finding='C19.minmax_sees_stored_zero')
    return which


def rd_nonzero_counts(w, ev, slot, t, ref):
    axis = ev.get('ax', 1) % 3
    binary = not ev.get('nonbinary')
    w.case('summary.nonzero_counts', 'nonzero_counts', slot, ax=axis,
           binary=binary)
    got = t.nonzero_counts(AX3[axis], binary) if ev.get('pos') else \
        t.nonzero_counts(axis=AX3[axis], binary=binary)
    src = (ref.m != 0).astype(float) if binary else ref.m
    want = np.array([src.sum()]) if axis == 2 else src.sum(axis=1 - axis)
    if not _num_eq(w, got, want, ref.m):
        w.fail('summary.nonzero_counts', 'nonzero_counts(%s, binary=%s) = %r'
               ', expected %r' % (AX3[axis], binary, np.asarray(got).tolist(),
                                  want.tolist()))
    return 'nonzero_counts'


def rd_reduce(w, ev, slot, t, ref):
    ax = ev.get('ax', 0) & 1
    fam = ev.get('fam', 0) % 2
    w.case('summary.reduce', 'reduce', slot, ax=ax, fam=fam)
    f = operator.add if fam == 0 else max
    got = t.reduce(f, AXNAME[ax])
    want = np.array([functools.reduce(f, ref.vec(ax, i).tolist())
                     for i in range(ref.n(ax))])
    if not _num_eq(w, got, want, ref.m):
        w.fail('summary.reduce', 'reduce(%s, %s) = %r, expected %r'
               % (('add', 'max')[fam], AXNAME[ax], np.asarray(got).tolist(),
                  want.tolist()))
    return 'reduce'


def rd_stats(w, ev, slot, t, ref):
    from biom.util import compute_counts_per_sample_stats
    binary = bool(ev.get('binary'))
    w.case('summary.stats', 'counts_per_sample_stats', slot, binary=binary)
    mn, mx, med, mean, per = compute_counts_per_sample_stats(t, binary)
    src = (ref.m != 0).astype(float) if binary else ref.m
    tot = src.sum(axis=0)
    want = {ref.ids[1][i]: float(tot[i]) for i in range(ref.n(1))}
    gotper = {str(k): float(v) for k, v in per.items()}
    ok = set(gotper) == set(want) and all(
        _num_eq(w, gotper[k], want[k], ref.m) for k in want)
    if not ok:
        w.fail('summary.stats', 'per-sample counts %r, expected %r'
               % (gotper, want))
    vals = np.array([want[k] for k in ref.ids[1]])
    if not np.isfinite(vals).all():
        return 'stats:overflow'     # a total overflowed: outside the domain
    for nm, g, x in (('min', mn, vals.min()), ('max', mx, vals.max()),
                     ('median', med, np.median(vals)),
                     ('mean', mean, vals.mean())):
        if not np.isclose(float(g), float(x), rtol=1e-9,
                          atol=1e-9 * float(np.abs(vals).sum())):
            w.fail('summary.stats', '%s = %r, expected %r' % (nm, g, x))
    return 'stats'


def rd_dataframe(w, ev, slot, t, ref):
    dense = bool(ev.get('dense'))
    w.case('export.dataframe', 'to_dataframe', slot, dense=dense)
    df = t.to_dataframe(dense=dense)
    if [str(i) for i in df.index] != ref.ids[0] or \
            [str(c) for c in df.columns] != ref.ids[1]:
        w.fail('export.dataframe', 'index/columns %r / %r, expected %r / %r'
               % (list(df.index), list(df.columns), ref.ids[0], ref.ids[1]))
    arr = np.asarray(df.to_numpy(), dtype=float)
    if arr.shape != ref.m.shape or not np.array_equal(arr, ref.m):
        nan_at_zero = (not dense and arr.shape == ref.m.shape and
                       np.array_equal(np.isnan(arr), ref.m == 0) and
                       np.array_equal(np.where(np.isnan(arr), 0.0, arr),
                                      ref.m))
        w.fail('export.dataframe', 'to_dataframe(dense=%s) values %r, '
               'expected %r' % (dense, arr.tolist(), ref.m.tolist()),
               finding='C19.sparse_dataframe_nan_fill', trigger=nan_at_zero)
    return 'dataframe'


def rd_md_dataframe(w, ev, slot, t, ref):
    ax = ev.get('ax', 0) & 1
    md = ref.md[ax]
    if md is None:
        return 'skip:nomd'
    keys = list(md[0])
    if any(list(d) != keys for d in md):
        return 'skip:ragged'
    lens = {}
    for k in keys:
        ls = {len(d[k]) if isinstance(d[k], (list, tuple)) else -1 for d in md}
        if len(ls) != 1:
            return 'skip:jagged'
        lens[k] = ls.pop()
    w.case('export.md_dataframe', 'metadata_to_dataframe', slot, ax=ax)
    df = t.metadata_to_dataframe(AXNAME[ax])
    if [str(i) for i in df.index] != ref.ids[ax]:
        w.fail('export.md_dataframe', 'index %r, expected %r'
               % (list(df.index), ref.ids[ax]))
    cols = {}
    for k in keys:
        if lens[k] >= 0:
            for j in range(lens[k]):
                cols['%s_%d' % (k, j)] = [d[k][j] for d in md]
        else:
            cols[k] = [d[k] for d in md]
    if sorted(map(str, df.columns)) != sorted(cols):
        w.fail('export.md_dataframe', 'columns %r, expected %r'
               % (sorted(map(str, df.columns)), sorted(cols)))
    for c, want in cols.items():
        got = [plain(x) for x in df[c].tolist()]
        def same(g, x):
            # a missing value (None) may be shown by pandas as None or NaN
            if x is None:
                return g is None or g != g
            return g == x or (g != g and x != x)
        if not all(same(g, x) for g, x in zip(got, want)):
            w.fail('export.md_dataframe', 'column %r = %r, expected %r'
                   % (c, got, want))
    return 'md_dataframe'


def rd_eq(w, ev, slot, t, ref):
    other = w.slot(ev.get('partner', 1))
    w.touch_readers(other)
    oref, o = other.ref, other.real
    # "no metadata" vs "every entry empty" is one observable state but two
    # representations (reachable only from partial metadata): not compared
    for tt in (t, o):
        for ax in (0, 1):
            md = tt.metadata(axis=AXNAME[ax])
            if md is not None and not any(md):
                return 'skip:ambiguous_md'
    want = ref.same_content(oref)
    w.case('equality', 'eq', slot, same=want, selfcmp=other is slot)
    form = ev.get('form', 0) % 3
    if form == 0:
        got = (t == o)
    elif form == 1:
        got = not (t != o)
    else:
        got = t.descriptive_equality(o) == 'Tables appear equal'
    if bool(got) != want:
        w.fail('equality', '%s says %s for tables whose content is %s'
               % (('==', '!=', 'descriptive_equality')[form],
                  'equal' if got else 'unequal',
                  'equal' if want else 'different'),
               finding='C16.eq_depends_on_stored_zeros')
    return 'eq:%s' % want


def rd_text(w, ev, slot, t, ref):
    """serialisers used as read accessors (content checked by the probes)"""
    import datetime
    which = ev.get('which', 0) % 4
    try:
        if which == 3:
            md = ref.md[0]
            keys = sorted({k for d in (md or []) for k in d}) + ['absent-key']
            t.to_tsv(header_key=keys[ev.get('i', 0) % len(keys)],
                     header_value='H', metadata_formatter=str)
        elif which == 0:
            t.to_tsv()
        elif which == 1:
            t.to_json('sim', creation_date=datetime.datetime(2020, 1, 1))
        else:
            str(t)
    except Exception:  # noqa
        w.stats['read.text.refused'] += 1
    return 'text'


READS = {
    'data': rd_data, 'value': rd_value, 'getslice': rd_getslice,
    'iter': rd_iter, 'iter_data': rd_iter_data, 'pairwise': rd_pairwise,
    'nonzero': rd_nonzero, 'sum': rd_sum, 'nnz': rd_nnz,
    'density': rd_density_first, 'minmax': rd_minmax,
    'nonzero_counts': rd_nonzero_counts, 'reduce': rd_reduce,
    'stats': rd_stats, 'dataframe': rd_dataframe,
    'md_dataframe': rd_md_dataframe, 'eq': rd_eq, 'text': rd_text,
}


# ================================================================= readers ==
def ev_spawn(w, ev):
    slot = w.slot(ev.get('slot', 0))
    if slot is None:
        return 'skip:nopool'
    if len(w.readers) >= MAX_READERS:
        return 'skip:max_readers'
    name = ev['name']
    t, ref = slot.real, slot.ref
    ax = ev.get('ax', 0) & 1
    w.stats['spawn.' + name] += 1
    if name == 'iter':
        dense = not ev.get('sparse')
        r = Reader(slot, t.iter(dense=dense, axis=AXNAME[ax]),
                   _items_iter(ref, ax), name, _cmp_vec_item, 'reader.iter')
    elif name == 'iter_data':
        r = Reader(slot, t.iter_data(axis=AXNAME[ax]),
                   [ref.vec(ax, i) for i in range(ref.n(ax))], name,
                   _cmp_data_item, 'reader.iter')
    elif name == 'pairwise':
        if ref.n(ax) > 5:
            return 'skip:large'
        tri, diag = bool(ev.get('tri', 1)), bool(ev.get('diag', 0))
        r = Reader(slot, t.iter_pairwise(axis=AXNAME[ax], tri=tri, diag=diag),
                   _items_pairwise(ref, ax, tri, diag), name, _cmp_pair_item,
                   'reader.pairwise')
    elif name == 'nonzero':
        # order: the statement promises the set of cells, not their order;
        # items are matched as a multiset at exhaustion, each step must yield
        # a not-yet-seen non-zero cell
        r = Reader(slot, t.nonzero(), _items_nonzero(ref), name, None,
                   'reader.nonzero')
    elif name == 'partition':
        from . import ops2
        return ops2.spawn_partition(w, ev, slot)
    else:
        raise ValueError(name)
    w.readers.append(r)
    return 'spawn:' + name


def ev_step(w, ev):
    if not w.readers:
        return 'skip:noreaders'
    r = w.readers[ev.get('r', 0) % len(w.readers)]
    n = 1 + ev.get('burst', 0) % 3
    out = []
    for _ in range(n):
        out.append(_step_one(w, r))
        if r not in w.readers:
            break
    return 'step:' + ','.join(out)


def _step_one(w, r):
    w.stats['step.' + r.kind] += 1
    if r.touched:
        w.stats['reader.interleaved_steps'] += 1
    r.touched = 0
    w.case(r.oracle, 'step', r.slot, kind=r.kind)
    if r.kind == 'partition':
        from .ops2 import step_partition
        return step_partition(w, r)
    try:
        item = next(r.gen)
    except StopIteration:
        if r.kind == 'nonzero':
            if r.expected:
                w.fail(r.oracle, 'suspended nonzero() ended without listing '
                       '%r' % (r.expected,))
        elif r.cursor != len(r.expected):
            w.fail(r.oracle, 'suspended %s ended after %d of %d items'
                   % (r.kind, r.cursor, len(r.expected)))
        w.readers.remove(r)
        w.stats['reader.exhausted'] += 1
        return 'end'
    if r.kind == 'nonzero':
        g = (str(item[0]), str(item[1]))
        if g not in r.expected:
            w.fail(r.oracle, 'suspended nonzero() yielded %r which is not a '
                   '(remaining) non-zero cell; remaining %r'
                   % (g, r.expected),
                   finding='C05.nonzero_lists_stored_zero')
            return 'known'
        r.expected.remove(g)
        r.cursor += 1
        return 'item'
    if r.cursor >= len(r.expected):
        w.fail(r.oracle, 'suspended %s yielded more than %d items'
               % (r.kind, len(r.expected)))
    d = r.cmp(item, r.expected[r.cursor])
    if d:
        w.fail(r.oracle, 'suspended %s item %d: %s' % (r.kind, r.cursor, d))
    r.cursor += 1
    return 'item'


def ev_drop(w, ev):
    if not w.readers:
        return 'skip:noreaders'
    r = w.readers.pop(ev.get('r', 0) % len(w.readers))
    try:
        r.gen.close()
    except Exception:  # noqa
        pass
    w.stats['reader.closed'] += 1
    return 'drop'
