"""partition / collapse / merge / concat executors (DESIGN Appendix A)."""
import copy
import math

import numpy as np

from . import callbacks as CB
from .callbacks import InjectedFault, Recorder
from .model import Ref, AXNAME, ModelError, canon_md
from .observe import Snap, diff_ref, md_equal, coherence
from .world import Reader, ref_from_snap, MAX_READERS
from .ops import _newtable, _call, OPS


def _exact(w, *refs):
    from .reads import exact_matrix
    return all(exact_matrix(r.m) for r in refs)


def _hashable(label):
    try:
        hash(label)
        return label
    except TypeError:
        return tuple(label)


# =============================================================== partition ==
def _partition_model(w, ev, ref, ax):
    """returns (argument builder, {label: Ref}, recorder factory)"""
    fam, salt = ev.get('fam', 0), ev.get('salt', 0)
    form = ev.get('form', 0) % 3       # 0 function, 1 dict id->grp, 2 grp->ids
    remove_empty = bool(ev.get('rme', 0))
    ignore_none = bool(ev.get('ign', 0))
    ids = ref.ids[ax]
    if form != 0 and fam % CB.N_LABEL in (5, 6):
        fam = 0            # list-valued / non-text labels only as function
    labels = [CB.label_rule(fam, salt, i, ref.md_or_none(ax, k))
              for k, i in enumerate(ids)]
    if form == 1:
        mapping = {i: l for i, l in zip(ids, labels) if l is not None}
        if not mapping:
            mapping = {ids[0]: 'only'}
        labels = [mapping.get(i) for i in ids]

        def mkarg(rec):
            return dict(mapping)
    elif form == 2:
        groups = {}
        for i, l in zip(ids, labels):
            if l is not None:
                groups.setdefault(l, []).append(i)
        if not groups:
            groups = {'only': [ids[0]]}
        inv = {i: g for g, members in groups.items() for i in members}
        labels = [inv.get(i) for i in ids]

        def mkarg(rec):
            if (salt // 3) % 2:
                return {g: tuple(v) for g, v in groups.items()}
            return {g: list(v) for g, v in groups.items()}
    else:
        def mkarg(rec):
            return CB.make_label(fam, salt, rec)
    classes = {}
    for k, l in enumerate(labels):
        if l is None and ignore_none:
            continue
        classes.setdefault(_hashable(l), []).append(k)
    parts = {}
    for l, pos in classes.items():
        p = ref.take(ax, pos)
        if remove_empty:
            for a in (1, 0):
                keep = [i for i in range(p.n(a)) if (p.vec(a, i) != 0).any()]
                p = p.take(a, keep)
        parts[l] = p
    return mkarg, parts, remove_empty, ignore_none


def _check_part(w, item, parts, oracle):
    try:
        label, tab = item
    except Exception:  # noqa
        w.fail(oracle, 'partition yielded %r, not (label, table)' % (item,))
    label = _hashable(label)
    if label not in parts:
        w.fail(oracle, 'partition yielded label %r; remaining labels %r'
               % (label, sorted(map(repr, parts))))
    exp = parts.pop(label)
    if exp.is_empty():
        s = Snap(tab)
        if s.shape[0] != 0 and s.shape[1] != 0:
            w.fail(oracle, 'part %r should be empty, has shape %r'
                   % (label, s.shape))
        return label, tab, exp
    msg = coherence(tab, w.absent_id())
    if msg:
        w.fail(oracle + '.incoherent', 'partition part %r: %s' % (label, msg))
    exp.type = tab.type        # the parts' table type is not specified
    d = diff_ref(Snap(tab), exp)
    if d:
        w.fail(oracle, 'part %r: %s' % (label, d))
    return label, tab, exp


def spawn_partition(w, ev, slot):
    ref = slot.ref
    ax = ev.get('ax', 0) & 1
    mkarg, parts, rme, ign = _partition_model(w, ev, ref, ax)
    rec = Recorder(None)
    gen = slot.real.partition(mkarg(rec), axis=AXNAME[ax], remove_empty=rme,
                              ignore_none=ign)
    r = Reader(slot, gen, parts, 'partition', None, 'partition.parts')
    r.cmp = ('adopt', ev.get('keep', 0), ev.get('dst'))
    w.readers.append(r)
    w.case('partition.parts', 'partition', slot, ax=ax, rme=rme, ign=ign,
           form=ev.get('form', 0) % 3, suspended=True)
    return 'spawn:partition'


def step_partition(w, r):
    """one next() on a suspended partition"""
    try:
        item = next(r.gen)
    except StopIteration:
        if r.expected:
            w.fail(r.oracle, 'partition ended without yielding labels %r'
                   % sorted(map(repr, r.expected)))
        w.readers.remove(r)
        w.stats['reader.exhausted'] += 1
        return 'end'
    label, tab, exp = _check_part(w, item, r.expected, r.oracle)
    r.cursor += 1
    _, keep, dst = r.cmp
    if keep and not exp.is_empty() and r.cursor <= 2:
        w.add_slot(tab, exp.copy(), dst, tags=('part',))
    return 'item'


def op_partition(w, ev, slot):
    """partition consumed at once (the suspended form is a `spawn`)"""
    ref = slot.ref
    ax = ev.get('ax', 0) & 1
    fault = ev.get('fault')
    mkarg, parts, rme, ign = _partition_model(w, ev, ref, ax)
    rec = Recorder(fault if ev.get('form', 0) % 3 == 0 else None)
    w.case('partition.parts', 'partition', slot, ax=ax, rme=rme, ign=ign,
           form=ev.get('form', 0) % 3, fault=fault is not None)
    if rec.fault_at is not None:
        w.stats['fault.F1.armed'] += 1
    if ev.get('pos'):
        status, res = _call(lambda: list(slot.real.partition(
            mkarg(rec), AXNAME[ax], rme, ign)))
    else:
        status, res = _call(lambda: list(slot.real.partition(
            mkarg(rec), axis=AXNAME[ax], remove_empty=rme, ignore_none=ign)))
    if status == 'fault':
        w.stats['fault.F1.fired'] += 1
        w.expect_unchanged(slot, 'partition.parts.input_changed',
                           'partition aborted by callback')
        return 'partition:fault'
    if status == 'exc':
        w.fail('partition.parts.raised', 'partition raised %r' % res)
    w.expect_unchanged(slot, 'partition.parts.input_changed', 'partition')
    kept = []
    for item in res:
        label, tab, exp = _check_part(w, item, parts, 'partition.parts')
        kept.append((tab, exp))
    if parts:
        w.fail('partition.parts', 'partition did not yield labels %r'
               % sorted(map(repr, parts)))
    if rec.calls and ev.get('form', 0) % 3 == 0:
        if [c[0] for c in rec.calls] != ref.ids[ax]:
            w.fail('partition.parts', 'labelling function called with ids %r'
                   % [c[0] for c in rec.calls])
    for tab, exp in kept[:ev.get('keep', 0) % 3]:
        if not exp.is_empty():
            w.add_slot(tab, exp.copy(), ev.get('dst'), tags=('part',))
    return 'partition:ok'


# ================================================================ collapse ==
def _order_like(exp, real_ids, ax):
    """reorder model result on axis ax to the real result's id order when the
    id sets agree (order of groups is unspecified)"""
    if sorted(map(repr, exp.ids[ax])) == sorted(map(repr, real_ids)) and \
            len(set(map(repr, real_ids))) == len(real_ids):
        pos = {i: k for k, i in enumerate(exp.ids[ax])}
        return exp.take(ax, [pos[i] for i in real_ids])
    return exp


def _approx_adopt(w, res, exp, oracle, what, rtol, check_type=True):
    if oracle == 'collapse.result':
        exp.type = res.type    # the collapsed table's type is not specified
    msg = coherence(res, w.absent_id())
    if msg:
        w.fail(oracle + '.incoherent', what + ': ' + msg)
    s = Snap(res)
    if s.m.shape == exp.m.shape and not (np.isfinite(s.m).all() and
                                         np.isfinite(exp.m).all()):
        # overflow to inf/nan: outside every domain (finite values); the
        # table is retired by the always-on pass
        exp.m = s.m.copy()
    if s.m.shape == exp.m.shape and rtol:
        scale = np.abs(exp.m).sum()
        close = np.isclose(s.m, exp.m, rtol=rtol, atol=rtol * scale * 1e-3)
        if close.all():
            exp.m = s.m.copy()
    d = diff_ref(s, exp, check_type)
    if d:
        w.fail(oracle, what + ': ' + d)
    return exp


def op_collapse(w, ev, slot):
    ref = slot.ref
    ax = ev.get('ax', 0) & 1
    otm = bool(ev.get('otm', 0))
    salt = ev.get('salt', 0)
    incl = bool(ev.get('incl', 1))
    fault = ev.get('fault')
    ids = ref.ids[ax]
    oax = 1 - ax
    if otm and ref.md[ax] is None:
        return 'skip:otm_needs_metadata'
    if otm:
        mode = ('add', 'divide')[ev.get('mode', 0) & 1]
        key = ('Path', 'pw')[ev.get('key', 0) & 1]
        pairs = [CB.pathways_rule(salt, i) for i in ids]
        bins = []
        for ps in pairs:
            for _, b in ps:
                if b not in bins:
                    bins.append(b)
        if not bins:
            return 'skip:nobins'
        bins = sorted(bins)
        acc = {b: np.zeros(ref.n(oax)) for b in bins}
        for k, ps in enumerate(pairs):
            v = ref.vec(ax, k)
            for _, b in ps:
                acc[b] = acc[b] + (v / len(ps) if mode == 'divide' else v)
        mat = np.array([acc[b] for b in bins])
        if ax == 1:
            mat = mat.T
        pathways = {b: [p for ps in pairs for p, bb in ps if bb == b]
                    for b in bins}
        newids = [ref.ids[0][:], ref.ids[1][:]]
        newids[ax] = bins
        md = [copy.deepcopy(ref.md[0]), copy.deepcopy(ref.md[1])]
        md[ax] = None
        exp = Ref(newids[0], newids[1], mat, md[0], md[1], ref.type,
                  ref.table_id)

        def do(real):
            rec = Recorder(fault)
            return real.collapse(CB.make_pathways(salt, rec), norm=False,
                                 one_to_many=True, one_to_many_mode=mode,
                                 one_to_many_md_key=key,
                                 include_collapsed_metadata=incl,
                                 axis=AXNAME[ax])

        def adopt(res):
            e = _order_like(exp, [str(i) for i in res.ids(axis=AXNAME[ax])],
                            ax)
            s = Snap(res)
            if incl:
                # metadata: {key: a pathway yielded with that bin}
                got = s.md[ax]
                if got is None or len(got) != len(e.ids[ax]):
                    w.fail('collapse.result', 'one-to-many metadata %r' % got)
                for b, d in zip(e.ids[ax], got):
                    pw = d.get(key) if isinstance(d, dict) else None
                    ok = list(d) == [key] and pw is not None and \
                        tuple(pw) in [tuple(p) for p in pathways[b]]
                    if not ok:
                        w.fail('collapse.result', 'bin %r has metadata %r'
                               ', expected {%r: one of %r}'
                               % (b, d, key, pathways[b]))
                e.md[ax] = copy.deepcopy(got)
            return _approx_adopt(w, res, e, 'collapse.result',
                                 'collapse(one_to_many, %s)' % mode,
                                 0 if (_exact(w, ref) and mode == 'add') else 1e-12)
        if fault is not None:
            w.stats['fault.F1.armed'] += 1
        return _newtable(w, ev, slot, 'collapse', do, None, 'collapse.result',
                         adopt=adopt)
    fam = ev.get('fam', 0) % 4            # text-valued label families
    norm = bool(ev.get('norm', 0))
    mgs = 1 + ev.get('mgs', 0) % 3
    custom = bool(ev.get('custom', 0))
    labels = [CB.label_rule(fam, salt, i, ref.md_or_none(ax, k))
              for k, i in enumerate(ids)]
    classes = {}
    for k, l in enumerate(labels):
        classes.setdefault(l, []).append(k)
    surv = [(l, pos) for l, pos in classes.items() if len(pos) >= mgs]
    if not surv:
        return 'skip:no_group_survives'
    vecs = []
    for l, pos in surv:
        v = np.zeros(ref.n(oax))
        for k in pos:
            v = v + ref.vec(ax, k)
        if norm:
            v = v / len(pos)
        vecs.append(v)
    mat = np.array(vecs)
    if ax == 1:
        mat = mat.T
    newids = [ref.ids[0][:], ref.ids[1][:]]
    newids[ax] = [l for l, _ in surv]
    md = [copy.deepcopy(ref.md[0]), copy.deepcopy(ref.md[1])]
    md[ax] = [{'collapsed_ids': [ids[k] for k in pos]} for _, pos in surv] \
        if incl else None
    exp = Ref(newids[0], newids[1], mat, md[0], md[1], ref.type, ref.table_id)

    def do(real):
        rec = Recorder(fault)
        kw = {}
        if custom:
            def cf(t, axis):
                return t.sum(axis)
            kw['collapse_f'] = cf
        return real.collapse(CB.make_label(fam, salt, rec), norm=norm,
                             min_group_size=mgs,
                             include_collapsed_metadata=incl,
                             axis=AXNAME[ax], **kw)

    def adopt(res):
        e = _order_like(exp, [str(i) for i in res.ids(axis=AXNAME[ax])], ax)
        rtol = 0 if (_exact(w, ref) and not norm) else 1e-12
        e = _approx_adopt(w, res, e, 'collapse.result', 'collapse', rtol)
        if not norm and mgs == 1:
            tot_in = ref.m.sum(axis=ax)
            tot_out = e.m.sum(axis=ax)
            # tolerance relative to what was added up, not to the total:
            # inexact values of both signs can cancel to almost nothing
            scale = np.abs(ref.m).sum(axis=ax)
            if not (np.abs(tot_in - tot_out) <= 1e-9 * scale).all():
                w.fail('collapse.conservation', '%s totals %r became %r'
                       % (AXNAME[oax], tot_in.tolist(), tot_out.tolist()))
        return e
    if fault is not None:
        w.stats['fault.F1.armed'] += 1
    return _newtable(w, ev, slot, 'collapse', do, None, 'collapse.result',
                     adopt=adopt)


# =================================================================== merge ==
def _merge_model(refs, modes, fams, has_md=None):
    """pairwise/k-way model merge. modes: (obs_mode, samp_mode) each 'u'/'i'.
    fams: (obs md fam, samp md fam) or None entries for 'no function'."""
    ids = []
    for ax in (0, 1):
        cur = list(refs[0].ids[ax])
        for r in refs[1:]:
            if modes[ax] == 'u':
                cur = cur + [i for i in r.ids[ax] if i not in cur]
            else:
                cur = [i for i in cur if i in set(r.ids[ax])]
        ids.append(cur)
    if not ids[0] or not ids[1]:
        return None
    m = np.zeros((len(ids[0]), len(ids[1])))
    for r in refs:
        pos = [{i: k for k, i in enumerate(r.ids[a])} for a in (0, 1)]
        for a, oi in enumerate(ids[0]):
            if oi not in pos[0]:
                continue
            for b, si in enumerate(ids[1]):
                if si in pos[1]:
                    m[a, b] = m[a, b] + r.m[pos[0][oi], pos[1][si]]
    md = []
    for ax in (0, 1):
        fam = fams[ax]
        if fam is None:
            md.append(None)
            continue
        a, b = refs[0], refs[1]
        out = []
        for i in ids[ax]:
            # what the merge function is given is the operand's entry for
            # that id: None only when the operand's axis has no metadata at
            # all; an axis whose every entry is empty (observably the same
            # table otherwise) hands over an empty mapping
            ma = None
            if i in a.ids[ax]:
                if a.md[ax] is not None:
                    ma = copy.deepcopy(a.md[ax][a.ids[ax].index(i)])
                elif has_md and has_md[0][ax]:
                    ma = {}
            mb = None
            if i in b.ids[ax]:
                if b.md[ax] is not None:
                    mb = copy.deepcopy(b.md[ax][b.ids[ax].index(i)])
                elif has_md and has_md[1][ax]:
                    mb = {}
            out.append(CB.mdf_rule(fam, ma, mb))
        md.append(out)
    return Ref(ids[0], ids[1], m, md[0], md[1])


def op_merge(w, ev, slot):
    ref = slot.ref
    partners = [w.slot(p) for p in (ev.get('partners') or [1])][:3]
    modes = ('u' if not ev.get('oi') else 'i', 'u' if not ev.get('si') else 'i')
    fo, fs = ev.get('fo', 0), ev.get('fs', 0)          # -1 means None
    both_none = fo == -1 and fs == -1
    if (fo == -1) != (fs == -1):
        fo = fs = 0
        both_none = False
    uu = modes == ('u', 'u')
    if both_none and not uu:
        fo = fs = 0
        both_none = False
    no_md = ref.md[0] is None and ref.md[1] is None
    fast_ok = uu and (no_md or both_none)
    plist = [w.slot(p) for p in (ev.get('partners') or [1])][:3]
    all_free = all(r.md[0] is None and r.md[1] is None
                   for r in [ref] + [p.ref for p in plist])
    # the iterable form is documented for metadata-free tables only
    listform = bool(ev.get('list', 0)) and fast_ok and (all_free or both_none)
    if listform and not both_none and any(
            t.real.metadata(axis=a) is not None
            for t in [slot] + plist for a in AXNAME):
        # "every entry empty" (reachable from partial metadata) is observably
        # the same as no metadata, but the iterable form is only documented
        # for tables without metadata
        listform = False
    if not listform:
        partners = partners[:1]
    refs = [ref] + [p.ref for p in partners]
    if listform and len(partners) > 1:
        # k-way form is documented for metadata-free operands only
        if any(r.md[0] is not None or r.md[1] is not None for r in refs):
            partners = partners[:1]
            refs = refs[:2]
    fams = (None if both_none else fo, None if both_none else fs)
    has_md = [[t.real.metadata(axis=a) is not None for a in AXNAME]
              for t in [slot] + partners[:1]]
    exp = _merge_model(refs, modes, fams, has_md)
    if exp is not None and uu and not any(
            t.real.metadata(axis=a) is not None
            for t in [slot] + partners for a in AXNAME):
        # metadata-free union: the documented fast path, which promises the
        # same values and id sets as the general path and consults no
        # metadata function (there is no metadata to merge)
        exp.md = [None, None]
    if exp is None:
        expected = ModelError('empty intersection')
    else:
        expected = None
    args = [p for p in partners if p is not slot]
    recs = []

    def do(real):
        kw = {'sample': 'union' if modes[1] == 'u' else 'intersection',
              'observation': 'union' if modes[0] == 'u' else 'intersection'}
        if both_none:
            kw['sample_metadata_f'] = None
            kw['observation_metadata_f'] = None
        elif not ev.get('dflt') or fo % CB.N_MDF or fs % CB.N_MDF:
            ro, rs = Recorder(None), Recorder(None)
            recs[:] = [ro, rs]
            kw['observation_metadata_f'] = CB.make_mdf(fo, ro)
            kw['sample_metadata_f'] = CB.make_mdf(fs, rs)
        other = [p.real for p in partners] if listform else partners[0].real
        before = list(other) if listform else None
        if ev.get('pos') and len(kw) == 4:
            # the documented positional order
            res = real.merge(other, kw['sample'], kw['observation'],
                             kw['sample_metadata_f'],
                             kw['observation_metadata_f'])
        else:
            res = real.merge(other, **kw)
        if listform and (len(other) != len(before) or any(
                x is not y for x, y in zip(other, before))):
            w.fail('merge.argument_changed', 'merge modified the list of '
                   'tables it was given')
        return res

    def adopt(res):
        e = exp
        for ax in (0, 1):
            e = _order_like(e, [str(i) for i in res.ids(axis=AXNAME[ax])], ax)
        e.type = res.type
        rtol = 0 if (_exact(w, *refs) or len(refs) == 2) else 1e-12
        s = Snap(res)
        # metadata: the fast path is documented for metadata-free input; when
        # the receiver has none and the merge function is the default, the
        # statement says "otherwise the other's"
        for ax in (0, 1):
            if not md_equal(s.md[ax], e.md[ax]):
                w.fail('merge.metadata', '%s metadata %r, expected %r'
                       % (AXNAME[ax], s.md[ax], e.md[ax]),
                       finding='C09.fast_merge_drops_other_metadata',
                       trigger=no_md and uu and not both_none)
                e.md[ax] = copy.deepcopy(s.md[ax])
        e = _approx_adopt(w, res, e, 'merge.result', 'merge', rtol)
        if uu:
            cells = [x for r in refs for x in r.m.ravel().tolist()]
            try:
                tin = math.fsum(cells)
                tout = math.fsum(e.m.ravel().tolist())
                scale = math.fsum(abs(x) for x in cells)
            except (OverflowError, ValueError):
                tin = tout = scale = 0.0
            if abs(tin - tout) > 1e-9 * scale:
                w.fail('merge.total', 'grand total %r, operands sum to %r'
                       % (tout, tin))
        return e
    w.stats['merge.fast' if fast_ok else 'merge.general'] += 1
    return _newtable(w, ev, slot, 'merge', do, expected, 'merge.result',
                     args=args, adopt=adopt if exp is not None else None)


# ================================================================== concat ==
def op_concat(w, ev, slot):
    import biom
    ref = slot.ref
    ax = ev.get('ax', 1) & 1
    oax = 1 - ax
    partners = [w.slot(p) for p in (ev.get('partners') or [])][:3]
    partners = [p for p in partners if p is not slot] if not ev.get('selfdup') \
        else partners
    refs = [ref] + [p.ref for p in partners]
    seen = set()
    disjoint = True
    for r in refs:
        if seen & set(r.ids[ax]):
            disjoint = False
        seen |= set(r.ids[ax])
    via = ev.get('via', 0) % 3
    if via == 2 and len(partners) != 1:
        via = 0
    args = [p for p in partners if p is not slot]
    if not disjoint:
        expected, exp = ModelError('ids not disjoint'), None
    else:
        expected = None
        cat_ids, cat_md = [], []
        for r in refs:
            cat_ids += r.ids[ax]
            cat_md += [copy.deepcopy(d) for d in r.mdl(ax)]
        other = []
        for r in refs:
            other += [i for i in r.ids[oax] if i not in other]
        m = np.zeros((len(cat_ids), len(other)))
        row = 0
        for r in refs:
            pos = {i: k for k, i in enumerate(r.ids[oax])}
            for k in range(r.n(ax)):
                v = r.vec(ax, k)
                for c, oi in enumerate(other):
                    if oi in pos:
                        m[row, c] = v[pos[oi]]
                row += 1
        if ax == 1:
            m = m.T
        ids = [None, None]
        ids[ax], ids[oax] = cat_ids, other
        md = [None, None]
        md[ax] = cat_md
        exp = Ref(ids[0], ids[1], m, md[0], md[1], ref.type)

    def do(real):
        if via == 1:
            arg = [real] + [p.real for p in partners]
            before = list(arg)
            res = biom.concat(arg, AXNAME[ax]) if ev.get('pos') else \
                biom.concat(arg, axis=AXNAME[ax])
        elif via == 2:
            if ev.get('pos'):
                return real.concat(partners[0].real, AXNAME[ax])
            return real.concat(partners[0].real, axis=AXNAME[ax])
        else:
            arg = [p.real for p in partners]
            before = list(arg)
            res = real.concat(arg, AXNAME[ax]) if ev.get('pos') else \
                real.concat(arg, axis=AXNAME[ax])
        if len(arg) != len(before) or any(x is not y
                                          for x, y in zip(arg, before)):
            w.fail('concat.argument_changed', 'concat modified the list of '
                   'tables it was given (%d entries became %d)'
                   % (len(before), len(arg)))
        return res

    def adopt(res):
        e = _order_like(exp, [str(i) for i in res.ids(axis=AXNAME[oax])], oax)
        s = Snap(res)
        e.md[oax] = copy.deepcopy(s.md[oax])      # other-axis metadata: open
        e.type = res.type
        w.expect_table(res, e, 'concat.result', True, 'concat')
        # the result's cells are the operands' cells plus zeros: exact sums
        try:
            tin = math.fsum(x for r in refs for x in r.m.ravel().tolist())
            tout = math.fsum(e.m.ravel().tolist())
        except (OverflowError, ValueError):
            tin = tout = 0.0
        if tin != tout:
            w.fail('concat.total', 'grand total %r, operands sum to %r'
                   % (tout, tin))
        return e
    w.stats['concat.disjoint' if disjoint else 'concat.overlap'] += 1
    out = _newtable(w, ev, slot, 'concat', do, expected, 'concat.result',
                    args=args, adopt=adopt if exp is not None else None)
    return out


OPS.update({'partition': op_partition, 'collapse': op_collapse,
            'merge': op_merge, 'concat': op_concat})
