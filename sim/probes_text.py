"""Text-format probes: C02 (JSON) and C03 (classic TSV).  DESIGN 6."""
import gzip
import io
import json
import os

import numpy as np

from .model import Ref, AXNAME, canon_md, plain
from .world import Violation
from .observe import Snap, diff_ref, md_equal, coherence
from .probes import probe
from . import store

WEIRD = ['plain', 'quote " inside', 'back\\slash', 'both "\\" of them',
         'tab\there', 'nl\nhere', 'ünï', '{"k": [1, 2]}', "single ' q",
         '\\"', 'ctrl\x01x', 'end\\']
WEIRD_TYPES = ['OTU table', 'Pathway "x" table', 'Gene\\table',
               'Taxon table', '', ' ', 'null']


def decode_biom1(doc):
    """independent BIOM 1.0 decoder: dict -> (ids, dense, md, fields)"""
    for k in ('rows', 'columns', 'shape', 'data', 'matrix_element_type',
              'type', 'generated_by', 'date', 'format', 'format_url', 'id'):
        if k not in doc:
            raise ValueError('key %r missing' % k)
    oids = [r['id'] for r in doc['rows']]
    sids = [c['id'] for c in doc['columns']]
    shape = doc['shape']
    if shape != [len(oids), len(sids)]:
        raise ValueError('shape %r but %d rows, %d columns'
                         % (shape, len(oids), len(sids)))
    m = np.zeros((len(oids), len(sids)))
    if doc.get('matrix_type', 'sparse') == 'dense':
        m = np.array(doc['data'], dtype=float).reshape(len(oids), len(sids))
    else:
        for trip in doc['data']:
            r, c, v = trip
            if not (isinstance(r, int) and isinstance(c, int)):
                raise ValueError('non-integer coordinate %r' % (trip,))
            if not (0 <= r < len(oids) and 0 <= c < len(sids)):
                raise ValueError('coordinate out of range %r' % (trip,))
            if m[r, c] != 0:
                raise ValueError('coordinate listed twice %r' % (trip,))
            m[r, c] = float(v)
    omd = [r['metadata'] for r in doc['rows']]
    smd = [c['metadata'] for c in doc['columns']]
    return oids, sids, m, omd, smd


def _json_md(md):
    """what metadata must look like after a JSON round trip"""
    if md is None:
        return None
    return canon_md(json.loads(json.dumps(md)))


def _cmp_doc(w, doc, ref, meta, oracle, what):
    try:
        oids, sids, m, omd, smd = decode_biom1(doc)
    except Exception as e:  # noqa
        w.fail(oracle, '%s: document does not decode as BIOM 1.0: %r'
               % (what, e))
        return
    if oids != ref.ids[0] or sids != ref.ids[1]:
        w.fail(oracle, '%s: ids %r / %r, table has %r / %r'
               % (what, oids, sids, ref.ids[0], ref.ids[1]))
    if m.shape != ref.m.shape or not np.array_equal(m, ref.m):
        bad = np.argwhere(m != ref.m)
        r, c = bad[0]
        w.fail(oracle, '%s: matrix differs at %d cells, first (%d,%d): '
               'document %r table %r' % (what, len(bad), r, c, float(m[r, c]),
                                         float(ref.m[r, c])),
               finding='C02.percent_f_truncation')
    for ax, got in ((0, omd), (1, smd)):
        if not md_equal(canon_md(got) if any(g is not None for g in got)
                        else None, _json_md(ref.md[ax])):
            w.fail(oracle, '%s: %s metadata %r, table has %r'
                   % (what, AXNAME[ax], got, ref.md[ax]))
    if doc['type'] != meta['type']:
        w.fail(oracle, '%s: type %r, table has %r' % (what, doc['type'],
                                                      meta['type']))
    if doc['generated_by'] != meta['generated_by']:
        w.fail(oracle, '%s: generated_by %r, given %r'
               % (what, doc['generated_by'], meta['generated_by']))
    if doc['date'] != meta['date'].isoformat():
        w.fail(oracle, '%s: date %r, given %r'
               % (what, doc['date'], meta['date'].isoformat()))
    want_id = str(meta['table_id'])
    if doc['id'] != want_id:
        w.fail(oracle, '%s: id %r, table has %r' % (what, doc['id'], want_id))


def _cmp_table(w, t2, ref, meta, oracle, what):
    msg = coherence(t2, w.absent_id())
    if msg:
        w.fail(oracle + '.incoherent', '%s: %s' % (what, msg))
    s = Snap(t2)
    exp = ref.copy()
    exp.md = [_json_md(ref.md[0]), _json_md(ref.md[1])]
    exp.type = meta['type']
    d = diff_ref(s, exp)
    if d:
        w.fail(oracle, '%s: %s' % (what, d),
               finding='C02.percent_f_truncation',
               trigger='matrix differs' in d)
    if t2.generated_by != meta['generated_by']:
        w.fail(oracle, '%s: generated_by %r, given %r'
               % (what, t2.generated_by, meta['generated_by']))
    got = t2.create_date
    if not hasattr(got, 'year') or store.as_plain(got) != meta['date']:
        w.fail(oracle, '%s: creation date %r, given %r'
               % (what, got, meta['date']))


def _pathform(path, w):
    """a path as str or as pathlib.Path (both are paths to the loader)"""
    import pathlib
    w.file_counter += 1
    return pathlib.Path(path) if w.file_counter % 3 == 0 else path


@probe('c02_json')
def c02_json(w, ev, slot):
    import biom
    from biom import Table
    from .probes_io import with_caller_zero, big_slot
    src = with_caller_zero(w, slot, ev.get('salt', 0) // 7)
    if src is slot:
        src = big_slot(w, slot, ev.get('c', 0) >> 3) or slot
    ref = src.ref
    t = src.real
    a, b, c = ev.get('a', 0), ev.get('b', 0), ev.get('c', 0)
    weird = w.ctrl_md or w.alpha == 'ctrl'
    gen_by = WEIRD[b % len(WEIRD)] if weird else WEIRD[(b % 3) * 0]
    if not weird:
        gen_by = ['sim', 'BIOM-Format 2.1.16-dev', 'a, b; c'][b % 3]
    meta = {'generated_by': gen_by, 'type': ref.type,
            'table_id': ref.table_id}
    if weird and c % 3 == 0:
        # header strings with quotes/backslashes: set on a copy (same layout)
        t = t.copy() if src is slot else t
        t.table_id = WEIRD[(c >> 2) % len(WEIRD)]
        t.type = WEIRD_TYPES[(c >> 1) % len(WEIRD_TYPES)]
        meta['table_id'] = t.table_id
        meta['type'] = t.type
        w.stats['c02.weird_header'] += 1
    when = store.set_clock(ev.get('salt', 0))
    meta['date'] = store.as_plain(when)
    explicit = bool(a & 1)
    kw = {}
    if explicit:
        kw['creation_date'] = store.as_plain(when)
    w.stats['clock.stamped'] += 1
    w.case('c02.json', 'to_json', slot, explicit=explicit, weird=weird)
    try:
        if (a >> 5) & 1:
            text = t.to_json(gen_by, None, kw.get('creation_date'))
        else:
            text = t.to_json(gen_by, **kw)
    except Exception as e:  # noqa
        w.fail('c02.write_raised', 'to_json raised %r' % (e,))
    # streamed form
    stream = store.SimTextStream()
    try:
        ret = t.to_json(gen_by, direct_io=stream, **kw)
    except Exception as e:  # noqa
        w.fail('c02.write_raised', 'to_json(direct_io) raised %r' % (e,))
    if stream.text() != text:
        # "the same document": equal as JSON documents (member order is not
        # part of a JSON object); compared when both parse
        try:
            want_doc = json.loads(text)
        except ValueError:
            want_doc = None            # reported below as c02.wellformed
        same = None
        if want_doc is not None:
            try:
                same = json.loads(stream.text()) == want_doc
            except ValueError:
                same = False           # the streamed form is not even JSON
        if same is False:
            w.fail('c02.stream_differs', 'direct_io document differs from '
                   'the returned string: %r vs %r' % (stream.text()[:300],
                                                      text[:300]))
        w.stats['c02.stream_text_differs_doc_equal'] += 1
    # F5: the stream fails on its k-th write
    if w.cfg.get('faults') in ('all', 'F5') or (a >> 1) % 4 == 0:
        k = (a >> 3) % max(1, stream.calls)
        bad = store.SimTextStream(fail_at=k)
        w.stats['fault.F5.armed'] += 1
        try:
            t.to_json(gen_by, direct_io=bad, **kw)
            returned = True
        except store.StreamFault:
            returned = False
        except Exception as e:  # noqa
            returned = False
        if bad.fired:
            w.stats['fault.F5.fired'] += 1
            if returned:
                w.fail('c02.stream_fault_swallowed', 'to_json returned '
                       'normally although the stream failed on write %d' % k)
            # the next streamed write, to a healthy stream, is a complete
            # document of its own
            again = store.SimTextStream()
            try:
                t.to_json(gen_by, direct_io=again, **kw)
                ok = json.loads(again.text()) == json.loads(stream.text())
            except ValueError:
                ok = False
            except Exception as e:  # noqa
                w.fail('c02.write_raised', 'to_json(direct_io) after a failed '
                       'streamed write raised %r' % (e,))
            if not ok:
                w.fail('c02.stream_differs', 'streamed document written '
                       'after a failed streamed write differs: %r'
                       % (again.text()[:300],))
    w.expect_unchanged(slot, 'c02.source_changed', 'to_json')
    try:
        doc = json.loads(text)
    except ValueError as e:
        w.fail('c02.wellformed', 'json.loads rejects the document: %s; text '
               '%r' % (e, text[:400]), finding='C02.header_strings_unescaped')
        return 'c02:known'
    _cmp_doc(w, doc, ref, meta, 'c02.document', 'json.loads(document)')
    path = None
    routes = [(a >> 1) % 6, (a >> 1) % 6 + 1 if (a >> 4) & 1 else None]
    plain_path = None
    for route in range(6):
        what = ('Table.from_json(dict)', 'parse_table(StringIO)',
                'parse_table(list of lines)',
                'parse_table(handle at offset)', 'load_table(path)',
                'load_table(gzip path)')[route]
        w.case('c02.json', what, slot)
        try:
            if route == 0:
                t2 = Table.from_json(json.loads(text))
            elif route == 1:
                t2 = biom.parse_table(io.StringIO(text))
            elif route == 2:
                k = 1 + (b % 7)
                cuts = sorted({(len(text) * (i + 1)) // (k + 1)
                               for i in range(k)})
                parts, prev = [], 0
                for cpos in cuts:
                    parts.append(text[prev:cpos])
                    prev = cpos
                parts.append(text[prev:])
                t2 = biom.parse_table(parts)
            elif route == 3:
                h = io.StringIO(' \n\t  ' + text)
                h.seek(1 + b % 4)
                t2 = biom.parse_table(h)
            elif route == 4:
                path = store.new_path(w, '.json.biom')
                plain_path = path
                with open(path, 'w', encoding='utf8', newline='') as f:
                    f.write(text)
                t2 = biom.load_table(_pathform(path, w))
                os.unlink(path)
            else:
                # gzip content is recognised from the file itself, whatever
                # the file is called
                path = store.new_path(w, ('.json.biom.gz', '.biom', '.GZ',
                                          '.json.gzip')[(b >> 3) % 4])
                if (b >> 5) & 1 and plain_path:
                    # the very path that held the plain text a moment ago
                    path = plain_path
                with gzip.open(path, 'wb') as f:
                    f.write(text.encode('utf8'))
                t2 = biom.load_table(_pathform(path, w))
                os.unlink(path)
        except Exception as e:  # noqa
            if path and os.path.exists(path):
                os.unlink(path)
            w.fail('c02.read_raised', '%s raised %r' % (what, e),
                   finding='C02.all_zero_table_unreadable',
                   trigger=not (ref.m != 0).any())
            continue
        _cmp_table(w, t2, ref, meta, 'c02.readback', what)
        _scribble(t2)
    return 'c02:ok'


def _scribble(t):
    """a caller editing, in place, the metadata values of a table it just
    imported (list values appended to, dict entries overwritten): the
    imported table is the caller's; later imports must not see the edits"""
    for axis in ('observation', 'sample'):
        md = t.metadata(axis=axis)
        if not md:
            continue
        for d in md:
            for k in list(d):
                v = d[k]
                if isinstance(v, list):
                    v.append('SCRIBBLED')
                elif isinstance(v, dict):
                    v['SCRIBBLED'] = 1
                else:
                    d[k] = 'SCRIBBLED'


# ===================================================================== TSV ==
_LINEBREAKS = '\n\r\v\f\x1c\x1d\x1e\x85\u2028\u2029'


def tsv_safe_id(i):
    return not (i == '' or '\t' in i or any(ch in i for ch in _LINEBREAKS) or
                i.startswith('#') or i != i.strip())


def _isfloat(s):
    try:
        float(s)
        return True
    except ValueError:
        return False


@probe('c03_tsv')
def c03_tsv(w, ev, slot):
    import biom
    from biom import Table
    from .callbacks import Recorder, InjectedFault
    ref = slot.ref
    t = slot.real
    if not all(tsv_safe_id(i) for ax in (0, 1) for i in ref.ids[ax]):
        return 'skip:ids_outside_domain'
    a, b, c = ev.get('a', 0), ev.get('b', 0), ev.get('c', 0)
    from .probes_io import big_slot
    big = big_slot(w, slot, c >> 3)
    if big is not None:
        ref, t = big.ref, big.real
    # optional exported category
    cat = None
    fmt = None
    inverse = None
    if ref.md[0] is not None and a & 1:
        keys = sorted(set.intersection(*[set(d) for d in ref.md[0]]))
        if keys:
            k = keys[b % len(keys)]
            vals = [d[k] for d in ref.md[0]]
            if all(isinstance(v, list) and all(isinstance(x, str) for x in v)
                   for v in vals):
                texts = ['; '.join(v) for v in vals]
                # an unnamed (blank) rank inside the list is fine, the list
                # still reads back from 'a; ; c'
                ok = all('; ' not in x and x == x.strip()
                         for v in vals for x in v) and \
                    all(v and v[0] and v[-1] for v in vals)

                def fmt(v):
                    return '; '.join(v)

                def inverse(s):
                    return s.split('; ')
                if (c >> 1) & 1 and not any(';' in x for v in vals
                                            for x in v):
                    # the processing function the library itself offers for
                    # this (`biom convert --process-obs-metadata`)
                    from biom.cli.table_converter import \
                        observation_metadata_types as _omt
                    inverse = _omt[('sc_separated', 'taxonomy')[(c >> 2) & 1]]
                    w.stats['c03.library_inverse'] += 1
            elif all(isinstance(v, str) for v in vals):
                texts = list(vals)
                ok = True

                def fmt(v):
                    return v

                def inverse(s):
                    return s
            else:
                texts, ok = [], False
            if ok and texts and all(
                    tx and tx == tx.strip() and '\t' not in tx and
                    not any(ch in tx for ch in _LINEBREAKS) and
                    not _isfloat(tx) for tx in texts):
                cat = k
    name = cat if cat is None or (c & 1) else 'Consensus Lineage'
    if cat is not None and not tsv_safe_id(name):
        cat = None
    kw = {}
    if cat is not None:
        kw = {'header_key': cat, 'header_value': name,
              'metadata_formatter': fmt}
        w.stats['c03.with_metadata'] += 1
    w.case('c03.tsv', 'export', slot, md=cat is not None,
           single=(ref.n(0) == 1, ref.n(1) == 1))
    exports = []
    try:
        text = t.to_tsv(**kw)
        exports.append(('to_tsv()', text))
        if cat is None and a & 2:
            exports.append(('str(table)', str(t)))
        stream = store.SimTextStream()
        t.to_tsv(direct_io=stream, **kw)
        exports.append(('to_tsv(direct_io)', stream.text()))
    except Exception as e:  # noqa
        w.fail('c03.write_raised', 'to_tsv raised %r' % (e,))
    if (a >> 2) % 4 == 0:
        # F5 on the text stream
        bad = store.SimTextStream(fail_at=(a >> 4) % max(1, stream.calls))
        w.stats['fault.F5.armed'] += 1
        try:
            t.to_tsv(direct_io=bad, **kw)
            returned = True
        except Exception:  # noqa
            returned = False
        if bad.fired:
            w.stats['fault.F5.fired'] += 1
            if returned:
                w.fail('c03.stream_fault_swallowed', 'to_tsv returned '
                       'normally although the stream failed')
    w.expect_unchanged(slot, 'c03.source_changed', 'to_tsv')
    proc = inverse if cat is not None else (lambda x: x)
    which = b % len(exports)
    label, text = exports[which]
    plain_path = None
    for route in range(5):
        what = '%s -> %s' % (label, (
            'from_tsv(list of lines)', 'from_tsv(StringIO)',
            'from_tsv(file handle)', 'load_table(path)',
            'load_table(gzip path)')[route])
        if route >= 3 and cat is not None and inverse('a; b') != 'a; b':
            # load_table cannot be given the inverse processing function
            continue
        w.case('c03.tsv', what.split(' -> ')[1], slot, md=cat is not None)
        path = None
        try:
            if route == 0:
                lines = text.split('\n')
                if lines and lines[-1] == '':
                    lines.pop()          # as readlines()/splitlines() would
                if b & 8:
                    lines = [ln + '\n' for ln in lines]
                given = list(lines)
                t2 = Table.from_tsv(lines, None, None, proc)
                if lines != given:
                    w.fail('c03.input_changed', 'from_tsv changed the list '
                           'of lines it was given (%d lines became %d)'
                           % (len(given), len(lines)))
                if b & 16:
                    # the same list object imported once more (history)
                    _cmp_tsv(w, t2, ref, cat, name, what)
                    t2 = Table.from_tsv(lines, None, None, proc)
                    what += ' second import of the same list'
            elif route == 1:
                t2 = Table.from_tsv(io.StringIO(text), None, None, proc)
            elif route == 2:
                path = store.new_path(w, '.tsv')
                with open(path, 'w', encoding='utf8', newline='\n') as f:
                    f.write(text)
                with open(path, encoding='utf8', newline='\n') as f:
                    t2 = Table.from_tsv(f, None, None, proc)
                os.unlink(path)
            elif route == 3:
                path = store.new_path(w, '.tsv')
                plain_path = path
                with open(path, 'w', encoding='utf8', newline='\n') as f:
                    f.write(text)
                t2 = biom.load_table(_pathform(path, w))
                os.unlink(path)
            else:
                path = store.new_path(w, ('.tsv.gz', '.txt', '.GZ',
                                          '.tsv.gzip')[(b >> 5) % 4])
                if (b >> 7) & 1 and plain_path:
                    # the very path that held the plain text a moment ago
                    path = plain_path
                with gzip.open(path, 'wb') as f:
                    f.write(text.encode('utf8'))
                t2 = biom.load_table(_pathform(path, w))
                os.unlink(path)
        except Violation:
            raise
        except Exception as e:  # noqa
            if path and os.path.exists(path):
                os.unlink(path)
            w.fail('c03.read_raised', '%s raised %r' % (what, e))
            continue
        _cmp_tsv(w, t2, ref, cat, name, what)
        _scribble(t2)
    if (a >> 6) & 1 and ref.type is not None:
        _tsv_via_convert(w, slot, ref, cat, name, t)
    return 'c03:ok'


def _cmp_tsv(w, t2, ref, cat, name, what):
    s = Snap(t2)
    if s.ids != ref.ids:
        w.fail('c03.roundtrip', '%s: ids %r, exported %r' % (what, s.ids,
                                                            ref.ids))
    if s.m.shape != ref.m.shape or not np.array_equal(s.m, ref.m):
        bad = np.argwhere(s.m != ref.m)
        r, c = bad[0]
        w.fail('c03.roundtrip', '%s: matrix differs at %d cells, first '
               '(%s,%s): imported %r exported %r'
               % (what, len(bad), ref.ids[0][r], ref.ids[1][c],
                  float(s.m[r, c]), float(ref.m[r, c])))
    if cat is not None:
        want = [{name: d[cat]} for d in ref.md[0]]
        if not md_equal(s.md[0], canon_md(want)):
            w.fail('c03.roundtrip', '%s: exported category came back as %r, '
                   'expected %r' % (what, s.md[0], want))


def _tsv_via_convert(w, slot, ref, cat, name, t):
    """biom convert --to-tsv, then TSV -> JSON/HDF5 with
    --process-obs-metadata (in-process callbacks)"""
    import biom
    from biom.cli.table_converter import _convert
    tsv = store.new_path(w, '.tsv')
    out = store.new_path(w, '.biom')
    lists = cat is not None and isinstance(ref.md[0][0][cat], list)
    if cat is not None and not lists:
        cat = None       # the command's formatters are for hierarchical lists
    if cat is not None and any(';' in x or x != x.strip()
                               for d in ref.md[0] for x in d[cat]):
        cat = None       # the command splits on every ';' (and strips)
    w.case('c03.tsv', 'convert', slot, md=cat is not None)
    src = store.new_path(w, '.src.biom')
    try:
        # the click command itself: every step goes through files
        from biom.cli.table_converter import convert as cmd
        import datetime
        tc = (t if t is not None else slot.real).copy()
        if cat is None:
            tc.del_metadata()
        else:
            tc.del_metadata(axis='sample')
            others = [k for k in ref.md[0][0] if k != cat]
            if others:
                tc.del_metadata(keys=others, axis='observation')
        with open(src, 'w', encoding='utf8') as f:
            f.write(tc.to_json('c03', creation_date=datetime.datetime(
                2020, 1, 1)))
        cmd.callback(src, tsv, None, None, False, False, True, False, False,
                     cat, name if cat else None, ref.type, None,
                     'naive' if not lists else 'sc_separated')
        cmd.callback(tsv, out, None, None, True, False, False, False, False,
                     None, None, ref.type,
                     'taxonomy' if cat is not None else None, 'sc_separated')
        t2 = biom.load_table(out)
    except Exception as e:  # noqa
        for p in (tsv, out, src):
            if os.path.exists(p):
                os.unlink(p)
        w.fail('c03.read_raised', 'biom convert round trip raised %r' % (e,))
        return
    for p in (tsv, out, src):
        if os.path.exists(p):
            os.unlink(p)
    w.stats['c03.via_convert'] += 1
    _cmp_tsv(w, t2, ref, cat, name, 'biom convert --to-tsv | biom convert')
    _scribble(t2)
