"""Per-property workload profiles and oracle ownership (DESIGN 4.5, 6)."""
from .gen import ALL_OPS, ALL_READS, ALL_PERTURB

# oracle (exact name or prefix; 'x' also owns 'x.raised', 'x.accepted')
OWNERS = {
    'C01': ['c01'],
    'C02': ['c02'],
    'C03': ['c03'],
    'C04': ['c04'],
    'C05': ['coherence', '*.incoherent', '*.refused_changed', '*.f6',
            'accessor', 'summary.nonzero_counts', 'read.nonzero_counts', 'reader', 'summary.sum',
            'summary.nnz',
            'summary.density', 'read.data', 'read.value', 'read.getslice',
            'read.iter', 'read.iter_data', 'read.pairwise', 'read.nonzero',
            'read.sum', 'read.nnz', 'read.density', 'step', 'spawn'],
    'C06': ['reorder', 'copy.result', 'rename', 'sort_order.unknown_id',
            'perturb.sortinv', 'perturb.tt', 'perturb.copy'],
    'C07': ['bystander', 'noninplace', 'inplace', 'newtable',
            '*.refused_changed', '*.receiver_changed', '*.input_changed',
            '*.source_changed', '*.returned_self', '*.inplace_returns_other',
            '*.inplace_raised',
            '*.returned_input', 'perturb.copy'],
    'C08': ['filter', 'remove_empty', 'head', 'perturb.filterall'],
    'C09': ['merge'],
    'C10': ['concat'],
    'C11': ['partition', 'collapse', 'reader.partition'],
    'C12': ['subsample', 'perturb.fulldepth', 'c12'],
    'C13': ['transform', 'norm', 'pa', 'rank', 'perturb.identity', 'c13'],
    'C14': ['c14'],
    'C15': ['c15'],
    'C16': ['equality', 'perturb', 'reader', 'c16'],
    'C17': ['construct'],
    'C18': ['metadata', 'c18'],
    'C19': ['summary', 'export', 'c19', 'read.minmax', 'read.nonzero_counts',
            'read.reduce', 'read.stats', 'read.dataframe',
            'read.md_dataframe', 'read.sum', 'read.nnz', 'read.density'],
    'C20': ['errprofile', 'c20', '*.f6'],
}


def _w(names, wgt, base=None, rest=0.3):
    d = {n: rest for n in (base or ALL_OPS)}
    for n in names:
        d[n] = wgt
    return d


H5_ALPHAS = ['ascii', 'ascii', 'num', 'punct', 'slash', 'unicode', 'long',
             'natsort', 'ws', 'labels']
# metadata categories allowed where the table travels to HDF5 (C01 grammar):
# indices into values.MD_CATS (note 'ph' float, 'depth' int, 'flag' bool)
H5_CATS = [0, 1, 2, 3, 4, 5, 6, 8, 14, 15, 17]

PROFILES = {
    'C05': {
        'name': 'C05', 'ops': {o: 1.0 for o in ALL_OPS},
        'kinds': {'op': 10, 'read': 6, 'perturb': 3, 'spawn': 1.5, 'step': 3,
                  'probe': 1.5},
        'reads': _w(['data', 'value', 'iter', 'pairwise', 'nonzero', 'sum',
                     'nnz', 'density', 'getslice', 'iter_data',
                     'nonzero_counts'], 1.0, ALL_READS, 0.15),
        'probes': {'c05_interleave': 1.0},
    },
    'C06': {
        'name': 'C06',
        'ops': _w(['sort', 'sort_order', 'align_to', 'transpose', 'copy',
                   'update_ids'], 3.0),
        'must_ops': ['sort', 'sort_order', 'align_to', 'transpose', 'copy',
                     'update_ids'],
        'perturb': _w(['sortinv', 'tt', 'copy'], 2.0, ALL_PERTURB, 0.5),
        'faults': ['none', 'none', 'F2', 'all'],
    },
    'C07': {
        'name': 'C07', 'ops': {o: 1.0 for o in ALL_OPS},
        'pools': [4, 6, 6, 6], 'kinds': {'op': 12, 'read': 3, 'perturb': 3},
        'faults': ['none', 'F1', 'F1', 'F6', 'all'],
    },
    'C08': {
        'name': 'C08',
        'ops': _w(['filter', 'remove_empty', 'head'], 4.0),
        'must_ops': ['filter', 'remove_empty', 'head', 'sort_order'],
        'perturb': _w(['sortinv', 'rebuild', 'fulldepth', 'flip',
                       'filterall'], 2.0, ALL_PERTURB, 0.5),
        'kinds': {'op': 10, 'perturb': 5, 'read': 2},
        'faults': ['none', 'none', 'F1', 'F2', 'F6', 'all'],
    },
    'C09': {
        'name': 'C09', 'ops': _w(['merge'], 6.0),
        'must_ops': ['merge', 'copy', 'update_ids', 'add_metadata',
                     'del_metadata', 'sort_order', 'filter'],
        'pools': [3, 4, 6], 'vfams': ['exact', 'exact', 'counts', 'wild',
                                      'pos'],
    },
    'C10': {
        'name': 'C10', 'ops': _w(['concat'], 6.0),
        'must_ops': ['concat', 'update_ids', 'copy', 'sort_order', 'filter'],
        'pools': [3, 4, 6],
    },
    'C11': {
        'name': 'C11', 'ops': _w(['partition', 'collapse'], 5.0),
        'must_ops': ['partition', 'collapse', 'add_metadata'],
        'vfams': ['exact', 'exact', 'counts', 'small3', 'pos'],
        'spawn': {'partition': 3.0, 'iter': 0.5, 'nonzero': 0.5},
        'kinds': {'spawn': 2.5, 'step': 4},
    },
    'C12': {
        'name': 'C12', 'ops': _w(['subsample'], 6.0),
        'must_ops': ['subsample', 'sort_order', 'filter'],
        'vfams': ['counts', 'counts', 'small3'],
        'perturb': _w(['fulldepth', 'sortinv', 'rebuild', 'flip'], 2.0,
                      ALL_PERTURB, 0.5),
        'probes': {'c12_dist': 1.0}, 'kinds': {'probe': 0.4},
    },
    'C13': {
        'name': 'C13', 'ops': _w(['transform', 'norm', 'pa', 'rankdata'], 4.0),
        'must_ops': ['transform', 'norm', 'pa', 'rankdata', 'sort_order'],
        'vfams': ['exact', 'pos', 'pos', 'counts', 'wild', 'tiny'],
        'perturb': _w(['flip', 'rebuild', 'sortinv', 'fulldepth',
                       'identity'], 2.0, ALL_PERTURB, 0.5),
        'kinds': {'op': 10, 'perturb': 5, 'read': 2, 'probe': 0.5},
        'probes': {'c13_axis': 1.0, 'c13_cli': 0.5},
        'faults': ['none', 'none', 'F1', 'all'],
    },
    'C16': {
        'name': 'C16', 'ops': {o: 0.6 for o in ALL_OPS},
        'kinds': {'op': 4, 'read': 8, 'perturb': 8, 'spawn': 2, 'step': 4,
                  'probe': 1.0},
        'reads': _w(['eq'], 6.0, ALL_READS, 0.6),
        'p_dup': 0.7, 'pools': [4, 6, 6],
        'probes': {'c16_export': 1.0, 'c16_near': 1.0, 'c05_interleave': 1.0},
    },
    'C18': {
        'name': 'C18', 'ops': _w(['add_metadata', 'del_metadata'], 5.0),
        'must_ops': ['add_metadata', 'del_metadata', 'copy', 'sort_order',
                     'filter'],
        'kinds': {'probe': 1.0}, 'probes': {'c18_mapfile': 1.0},
    },
    'C19': {
        'name': 'C19', 'ops': {o: 0.7 for o in ALL_OPS},
        'kinds': {'op': 5, 'read': 10, 'perturb': 4, 'probe': 2.0},
        'reads': _w(['sum', 'minmax', 'nonzero_counts', 'nnz', 'density',
                     'reduce', 'stats', 'dataframe', 'md_dataframe'], 1.0,
                    ALL_READS, 0.1),
        'probes': {'c19_report': 1.0, 'c19_cli': 0.6},
    },
}

# storage profiles: histories, then round-trip / spec / subset probes
for pid, probes, extra in (
        ('C01', {'c01_roundtrip': 1.0}, {}),
        ('C04', {'c04_spec': 1.0}, {}),
        ('C14', {'c14_subset': 1.0}, {'maxdims': [2, 3, 4, 6, 12, 14]}),
        ('C15', {'c15_validate': 1.0}, {})):
    PROFILES[pid] = dict({
        'name': pid, 'ops': {o: 1.0 for o in ALL_OPS},
        'alphas': H5_ALPHAS, 'md_cats': H5_CATS, 'md_full': True,
        'kinds': {'op': 5, 'perturb': 4, 'read': 1, 'probe': 3.0},
        'lens': [4, 6, 10, 16, 24], 'probes': probes,
    }, **extra)
PROFILES['C02'] = {
    'name': 'C02', 'ops': {o: 1.0 for o in ALL_OPS},
    'md_cats': list(range(18)),
    'alphas': ['ascii', 'num', 'punct', 'slash', 'unicode', 'long', 'ctrl',
               'ctrl', 'ws', 'labels'], 'ctrl_md': 0.6,
    'vfams': ['wild', 'wild', 'exact', 'counts', 'tiny'],
    'kinds': {'op': 5, 'perturb': 4, 'read': 1, 'probe': 3.0},
    'lens': [4, 6, 10, 16, 24], 'probes': {'c02_json': 1.0},
}
PROFILES['C03'] = {
    'name': 'C03', 'ops': {o: 1.0 for o in ALL_OPS},
    'alphas': ['ascii', 'num', 'punct', 'slash', 'unicode', 'long',
               'natsort', 'labels'],
    'vfams': ['wild', 'wild', 'exact', 'counts', 'tiny'],
    'kinds': {'op': 5, 'perturb': 4, 'read': 1, 'probe': 3.0},
    'md_cats': list(range(10)) + [14, 15, 16, 16, 17],
    'lens': [4, 6, 10, 16, 24], 'probes': {'c03_tsv': 1.0},
}
PROFILES['C20'] = {'name': 'C20', 'engine': 'c20'}
