"""Small-scope exhaustive stages run in addition to the seeded search
(DESIGN 6: C05 bounded-depth sequences, C06 all permutations of short axes,
C08 every matrix x subset x invert x axis x inplace on tiny tables).

Each case is an explicit event list executed by the same world executor, so a
violation gets the same shrinking and replay file as a seeded run."""
import itertools

SWEEP_CFG = {'vfam': 'small3', 'alpha': 'ascii', 'ctrl_md': 0, 'pool': 6,
             'profile': 'sweep'}


def _new(nr, nc, cells, mdo=0, mds=0, route=0):
    return {'k': 'new', 'route': route, 'nr': nr, 'nc': nc, 'stride': nc,
            'cells': list(cells), 'io': list(range(nr)),
            'is': list(range(nc)), 'mdo': mdo, 'mds': mds, 'salt': 3,
            'type': 1, 'tid': 0, 'ids_as': 0, 'dst': 0}


LAYOUTS = [None,
           {'k': 'perturb', 'name': 'flip', 'slot': 0, 'ax': 1, 'i': 0},
           {'k': 'perturb', 'name': 'sortinv', 'slot': 0, 'ax': 1,
            'perm': [1, 1, 0], 'dup': 0}]


def c08_cases(tier):
    """every matrix over {0,1,2} of the listed shapes x layout x axis x
    non-empty subset x invert, each run non-in-place and in place (twin)"""
    shapes = [(1, 1), (1, 2), (2, 1), (2, 2), (1, 3), (3, 1), (2, 3), (3, 2)]
    if tier == 'thorough':
        shapes.append((3, 3))
    for nr, nc in shapes:
        for cells in itertools.product(range(3), repeat=nr * nc):
            for lay in LAYOUTS:
                for ax in (0, 1):
                    n = nr if ax == 0 else nc
                    for mask in range(1, 1 << n):
                        for inv in (0, 1):
                            evs = [_new(nr, nc, cells)]
                            if lay:
                                evs.append(dict(lay))
                            evs.append({'k': 'op', 'name': 'filter',
                                        'slot': 0, 'ax': ax, 'by': 0,
                                        'mask': mask, 'inv': inv, 'inp': 1,
                                        'twin': 1, 'rot': mask, 'rev': inv,
                                        'cont': mask % 5, 'unk': 0, 'dst': 1})
                            yield evs
                    # predicate route: membership and value predicates
                    for fam in (0, 1, 4):
                        evs = [_new(nr, nc, cells)]
                        if lay:
                            evs.append(dict(lay))
                        evs.append({'k': 'op', 'name': 'filter', 'slot': 0,
                                    'ax': ax, 'by': 1, 'fam': fam,
                                    'salt': sum(cells), 'inv': 0, 'inp': 1,
                                    'twin': 1, 'fault': None, 'dst': 1})
                        yield evs
                evs = [_new(nr, nc, cells)]
                if lay:
                    evs.append(dict(lay))
                evs.append({'k': 'op', 'name': 'remove_empty', 'slot': 0,
                            'ax': 2, 'inp': 1, 'twin': 1, 'dst': 1})
                evs.append({'k': 'op', 'name': 'head', 'slot': 0,
                            'n': 1 + sum(cells) % 3, 'm': 1 + len(cells) % 3,
                            'dst': 2})
                yield evs


def c06_cases(tier):
    """all permutations of axes up to length 4 (Lehmer codes), both axes,
    with and without metadata, three layouts; then the inverse permutation"""
    maxn = 4
    for n in range(1, maxn + 1):
        other = 2 if n < 4 else 3
        cells = [(3 * i + 1) % 20 or 1 for i in range(n * other)]
        for ax in (0, 1):
            nr, nc = (n, other) if ax == 0 else (other, n)
            for md in (0, 9):
                for lay in LAYOUTS:
                    for code in itertools.product(*[range(n - j)
                                                    for j in range(n)]):
                        evs = [_new(nr, nc, cells, mdo=md, mds=md)]
                        if lay:
                            evs.append(dict(lay))
                        evs.append({'k': 'op', 'name': 'sort_order',
                                    'slot': 0, 'ax': ax, 'perm': list(code),
                                    'form': sum(code) % 2, 'unk': 0,
                                    'dst': 1})
                        # back to the original order: the pair restores
                        # ids, order, values and metadata
                        evs.append({'k': 'perturb', 'name': 'sortinv',
                                    'slot': 0, 'ax': ax, 'perm': list(code),
                                    'dup': 1, 'dst': 2})
                        evs.append({'k': 'read', 'name': 'eq', 'slot': 0,
                                    'partner': 2, 'form': 0})
                        evs.append({'k': 'op', 'name': 'transpose',
                                    'slot': 1, 'dst': 3})
                        yield evs


_OPS2 = [
    {'name': 'filter', 'by': 0, 'mask': 1, 'inv': 0, 'inp': 1, 'twin': 0},
    {'name': 'filter', 'by': 0, 'mask': 2, 'inv': 1, 'inp': 1, 'twin': 0},
    {'name': 'filter', 'by': 1, 'fam': 1, 'salt': 1, 'inv': 0, 'inp': 1,
     'twin': 0, 'fault': None},
    {'name': 'filter', 'by': 0, 'mask': 3, 'inv': 0, 'inp': 0, 'twin': 0},
    {'name': 'remove_empty', 'inp': 1, 'twin': 0},
    {'name': 'head', 'n': 2, 'm': 2},
    {'name': 'sort', 'fam': 1, 'explicit': 1, 'fault': None},
    {'name': 'sort_order', 'perm': [1, 0, 0], 'form': 0, 'unk': 0},
    {'name': 'transpose'},
    {'name': 'copy'},
    {'name': 'update_ids', 'mask': 3, 'fam': 2, 'salt': 1, 'strict': 0,
     'inp': 1, 'twin': 0},
    {'name': 'update_ids', 'mask': 1, 'fam': 0, 'salt': 2, 'strict': 0,
     'inp': 0, 'twin': 0},
    {'name': 'add_metadata', 'mask': 1, 'keys': 1, 'salt': 5, 'extra': 1},
    {'name': 'del_metadata', 'keys': 1, 'all': 0, 'extra': 0},
    {'name': 'transform', 'fam': 3, 'salt': 0, 'inp': 1, 'twin': 0,
     'fault': None},
    {'name': 'norm', 'inp': 1, 'twin': 0},
    {'name': 'pa', 'inp': 1, 'twin': 0},
    {'name': 'rankdata', 'method': 0, 'inp': 1, 'twin': 0},
    {'name': 'subsample', 'n': 1, 'by_id': 0, 'wr': 0, 'seed': 7, 'nadj': 0},
    {'name': 'subsample', 'n': 1, 'by_id': 1, 'wr': 0, 'seed': 7, 'nadj': 0},
    {'name': 'collapse', 'fam': 0, 'salt': 1, 'norm': 0, 'mgs': 0, 'incl': 1,
     'custom': 0, 'otm': 0, 'mode': 0, 'key': 0, 'fault': None},
    {'name': 'partition', 'fam': 0, 'salt': 1, 'form': 0, 'rme': 0, 'ign': 0,
     'keep': 1, 'fault': None},
    {'name': 'merge', 'partners': [1], 'oi': 0, 'si': 0, 'list': 0, 'dflt': 1,
     'fo': 0, 'fs': 0},
    {'name': 'concat', 'partners': [1], 'via': 0},
    {'name': 'align_to', 'partner': 1, 'mode': 3},
]
_READS = [{'k': 'read', 'name': 'nonzero', 'slot': 0},
          {'k': 'read', 'name': 'pairwise', 'slot': 0, 'ax': 1, 'tri': 1,
           'diag': 0},
          {'k': 'read', 'name': 'sum', 'slot': 0, 'ax': 0},
          {'k': 'read', 'name': 'value', 'slot': 0, 'i': 1, 'j': 2},
          {'k': 'read', 'name': 'nnz', 'slot': 0},
          {'k': 'read', 'name': 'iter', 'slot': 0, 'ax': 0}]


def c05_cases(tier):
    """every sequence of length <= depth over a finite operation/argument
    alphabet (both axes) on a 2x3 start table with a renamed partner, each
    followed by every accessor of the C05 list"""
    depth = 3 if tier == 'thorough' else 2
    alphabet = []
    for op in _OPS2:
        for ax in (0, 1):
            e = dict(op, k='op', slot=0, ax=ax, dst=2)
            alphabet.append(e)
    start = [_new(2, 3, [1, 0, 2, 0, 2, 1], mdo=9),
             {'k': 'op', 'name': 'update_ids', 'slot': 0, 'ax': 1,
              'mask': 7, 'fam': 5, 'salt': 4, 'strict': 0, 'inp': 0,
              'twin': 0, 'dst': 1}]
    for d in range(1, depth + 1):
        for seq in itertools.product(range(len(alphabet)), repeat=d):
            if d == 3 and (seq[0] + seq[1] + seq[2]) % 4:
                continue        # thorough: a fixed quarter of depth 3
            evs = [dict(e) for e in start] + [dict(alphabet[i]) for i in seq]
            evs += [dict(r) for r in _READS]
            yield evs


SWEEPS = {'C08': c08_cases, 'C06': c06_cases, 'C05': c05_cases}
SPACE = {
    'C08': 'every matrix over {0,1,2} of shape up to 2x3/3x2 (thorough: 3x3) '
           'x 3 layouts (CSR, CSC, unsorted indices) x axis x every non-empty '
           'id subset x invert x (non-in-place and in-place), plus predicate '
           'filters, remove_empty and head',
    'C06': 'every permutation (Lehmer code) of an axis of length 1..4 x axis '
           'x metadata on/off x 3 layouts, followed by the inverse '
           'permutation, an equality read and a transpose',
    'C05': 'every sequence of length <= 2 (thorough: and a fixed quarter of '
           'length 3) over a 50-letter operation alphabet (25 op instances x '
           '2 axes) on a 2x3 table with a partner, each followed by six '
           'accessors',
}
