"""C15: validator accepts what the library writes, rejects structural
corruption (fault kind F4: all single mutations of a stored file enumerated,
pairs sampled).  DESIGN 6 C15, Appendix B."""
import copy
import json
import os
import shutil
import contextlib
import io

import numpy as np

from .model import AXNAME
from .probes import probe
from .probes_io import h5_grammar_ok, _group_md_text
from .probes_text import decode_biom1
from . import store, spec_h5

JSON_KEYS = ['id', 'format', 'format_url', 'type', 'generated_by', 'date',
             'rows', 'columns', 'matrix_type', 'matrix_element_type', 'shape',
             'data']


# ------------------------------------------------------------ JSON grammar --
def json_mutations(doc):
    """list of (name, function(doc_copy) -> None) single mutations"""
    muts = []

    def add(name, fn):
        muts.append((name, fn))
    for k in JSON_KEYS:
        add('del:' + k, lambda d, k=k: d.pop(k, None))
        add('rename:' + k, lambda d, k=k: d.__setitem__(k + '_x',
                                                        d.pop(k, None)))
    R, C = len(doc['rows']), len(doc['columns'])
    add('shape0+1', lambda d: d['shape'].__setitem__(0, d['shape'][0] + 1))
    add('shape1+1', lambda d: d['shape'].__setitem__(1, d['shape'][1] + 1))
    add('shape0-1', lambda d: d['shape'].__setitem__(0, d['shape'][0] - 1))
    add('shape1-1', lambda d: d['shape'].__setitem__(1, d['shape'][1] - 1))
    add('shape:one', lambda d: d.__setitem__('shape', [d['shape'][0]]))
    add('shape:str', lambda d: d.__setitem__('shape', ['a', d['shape'][1]]))
    if R == 1:
        add('shape:true', lambda d: d['shape'].__setitem__(0, True))
    if C == 1:
        add('shape:true1', lambda d: d['shape'].__setitem__(1, True))
    v = 1.5
    for name, trip in (('row=R', [R, 0, v]), ('col=C', [0, C, v]),
                       ('row=-1', [-1, 0, v]), ('col=-1', [0, -1, v]),
                       ('row=0.5', [0.5, 0, v]), ('row=str', ['0', 0, v]),
                       ('arity2', [0, 0]), ('arity4', [0, 0, v, v]),
                       ('val=str', [0, 0, 'x']), ('val=null', [0, 0, None]),
                       ('val=list', [0, 0, [1]]),
                       ('row=true', [True, 0, v]), ('col=true', [0, True, v]),
                       ('row=false', [False, False, v]),
                       ('val=true', [0, 0, True])):
        add('coord:' + name, lambda d, t=trip: d['data'].append(list(t)))
    add('coord:frac_in_int', lambda d: (
        d.__setitem__('matrix_element_type', 'int'),
        d.__setitem__('data', [[r, c, int(x)] for r, c, x in d['data']
                               if float(x).is_integer()] + [[0, 0, 1.5]])))
    for axis, n in (('rows', R), ('columns', C)):
        if n >= 2:
            add(axis + ':dup_id', lambda d, a=axis: d[a][1].__setitem__(
                'id', d[a][0]['id']))
            add(axis + ':dup_whole', lambda d, a=axis: d[a].append(
                copy.deepcopy(d[a][0])))
            add(axis + ':del_entry', lambda d, a=axis: d[a].pop())
        add(axis + ':blank_id', lambda d, a=axis: d[a][0].__setitem__('id',
                                                                      ''))
        add(axis + ':del_id', lambda d, a=axis: d[a][0].pop('id'))
        add(axis + ':del_md', lambda d, a=axis: d[a][0].pop('metadata'))
        for nm, val in (('list', [1]), ('str', 's'), ('num', 3),
                        ('true', True)):
            add(axis + ':md=' + nm, lambda d, a=axis, val=val:
                d[a][-1].__setitem__('metadata', val))
    add('matrix_type=dense', lambda d: d.__setitem__('matrix_type', 'dense'))
    add('matrix_type=bogus', lambda d: d.__setitem__('matrix_type', 'bogus'))
    for et in ('int', 'unicode', 'bogus'):
        add('element_type=' + et, lambda d, et=et:
            d.__setitem__('matrix_element_type', et))
    for k in ('date', 'format', 'format_url', 'type', 'generated_by'):
        add('junk:' + k, lambda d, k=k: d.__setitem__(k, 'junk %s' % k))
    return muts


def json_classes(doc):
    """independent classifier: which listed corruption classes does the final
    document exhibit?"""
    cls = set()
    if not isinstance(doc, dict):
        return {'missing_required'}
    for k in JSON_KEYS:
        if k not in doc:
            cls.add('missing_required')
    rows = doc.get('rows')
    cols = doc.get('columns')
    for ax in (rows, cols):
        if isinstance(ax, list):
            ids = []
            for e in ax:
                if not isinstance(e, dict) or 'id' not in e or \
                        'metadata' not in e:
                    cls.add('missing_required')
                    continue
                if e['id'] == '' or e['id'] is None:
                    cls.add('id_empty')
                ids.append(e['id'])
                if e['metadata'] is not None and \
                        not isinstance(e['metadata'], dict):
                    cls.add('metadata_not_object_or_null')
            hashable = [i for i in ids if isinstance(i, (str, int, float))]
            if len(set(hashable)) != len(hashable):
                cls.add('id_duplicate')
    shape = doc.get('shape')
    shape_ok = (isinstance(shape, list) and len(shape) == 2 and
                all(isinstance(x, int) and not isinstance(x, bool)
                    for x in shape))
    if 'shape' in doc and not shape_ok:
        cls.add('shape_vs_ids')
    if shape_ok:
        if isinstance(rows, list) and shape[0] != len(rows):
            cls.add('shape_vs_ids')
        if isinstance(cols, list) and shape[1] != len(cols):
            cls.add('shape_vs_ids')
    mt = doc.get('matrix_type')
    et = doc.get('matrix_element_type')
    data = doc.get('data')
    numeric = et in ('int', 'float')

    def isnum(x):
        return isinstance(x, (int, float)) and not isinstance(x, bool)
    if shape_ok and isinstance(data, list):
        if mt == 'sparse':
            for trip in data:
                if not isinstance(trip, list) or len(trip) != 3:
                    cls.add('wrong_element_type')
                    continue
                r, c, v = trip
                for x in (r, c):
                    if not isinstance(x, int) or isinstance(x, bool):
                        cls.add('wrong_element_type')
                if isinstance(r, int) and not isinstance(r, bool) and \
                        not 0 <= r < shape[0]:
                    cls.add('coord_out_of_shape')
                if isinstance(c, int) and not isinstance(c, bool) and \
                        not 0 <= c < shape[1]:
                    cls.add('coord_out_of_shape')
                if numeric and not isnum(v):
                    cls.add('wrong_element_type')
                if et == 'int' and isnum(v) and float(v) != int(v):
                    cls.add('wrong_element_type')
        elif mt == 'dense':
            if len(data) != shape[0] or any(
                    not isinstance(r, list) or len(r) != shape[1]
                    for r in data):
                cls.add('coord_out_of_shape')
            else:
                for r in data:
                    for v in r:
                        if numeric and not isnum(v):
                            cls.add('wrong_element_type')
    return cls


def _validate(path, via_command=False, version=None):
    """(verdict, report).  verdict True only if the validator says valid;
    raising or exiting non-zero counts as not valid."""
    from biom.cli.table_validator import _validate_table, validate_table
    buf = io.StringIO()
    try:
        if via_command:
            # the click command: verdict is the exit status and the last line
            try:
                with contextlib.redirect_stdout(buf):
                    validate_table.callback(path, version)
                code = 0
            except SystemExit as e:
                code = e.code
            text = buf.getvalue()
            said_valid = 'is a valid BIOM-formatted file' in text
            if (code == 0) != said_valid:
                return False, ['exit status %r but report %r'
                               % (code, text[-200:])]
            return code == 0, text.splitlines()
        with contextlib.redirect_stdout(buf):
            valid, report = _validate_table(path, version) \
                if version is not None else _validate_table(path)
        return bool(valid), report
    except SystemExit:
        return False, ['exit']
    except Exception as e:  # noqa
        return False, ['raised %r' % (e,)]


def _json_sweep(w, ev, slot, text, ref, thorough):
    import biom
    doc0 = json.loads(text)
    muts = json_mutations(doc0)
    path = store.new_path(w, '.mut.biom')
    plans = [[m] for m in muts]
    if thorough or ev.get('c', 0) % 4 == 0:
        # sampled pairs (deterministic from the event's salt)
        salt = ev.get('salt', 0)
        n = len(muts)
        for k in range(12 if not thorough else 40):
            i = (salt * 31 + k * 17) % n
            j = (salt * 7 + k * 29 + 1) % n
            if i != j:
                plans.append([muts[i], muts[j]])
    for plan in plans:
        doc = copy.deepcopy(doc0)
        name = '+'.join(p[0] for p in plan)
        try:
            for _, fn in plan:
                fn(doc)
        except Exception:  # noqa  (second mutation no longer applicable)
            continue
        cls = json_classes(doc)
        with open(path, 'w') as f:
            json.dump(doc, f)
        verdict, report = _validate(path, via_command=len(name) % 5 == 0)
        w.stats['fault.F4.json'] += 1
        w.case('c15.reject', 'json:' + name.split('+')[0].split(':')[0],
               None, classes=tuple(sorted(cls)), pair=len(plan) > 1)
        if cls and verdict:
            fid = None
            if cls == {'id_duplicate'}:
                fid = 'C15.json_duplicate_ids_accepted'
            w.fail('c15.reject', 'validator reports VALID for a JSON file '
                   'with corruption %s (mutation %s)' % (sorted(cls), name),
                   finding=fid)
        if verdict and doc.get('matrix_element_type') in ('int', 'float'):
            # accepted => loads and yields declared shape, ids, values
            try:
                t2 = biom.load_table(path)
                oids, sids, m, _, _ = decode_biom1(doc)
            except Exception as e:  # noqa
                w.fail('c15.accepted_unloadable', 'validator accepted a JSON '
                       'file (mutation %s) that does not load/decode: %r'
                       % (name, e))
                continue
            got_ids = [[str(i) for i in t2.ids(axis='observation')],
                       [str(i) for i in t2.ids()]]
            dense = np.asarray(t2.matrix_data.toarray())
            if got_ids != [oids, sids] or list(dense.shape) != doc['shape'] \
                    or not np.array_equal(dense, m):
                w.fail('c15.accepted_unloadable', 'validator accepted a JSON '
                       'file (mutation %s) but loading gives ids %r shape %r'
                       % (name, got_ids, dense.shape))
    if os.path.exists(path):
        os.unlink(path)


# ------------------------------------------------------------ HDF5 grammar --
def h5_mutations(f0):
    """names of single mutations applicable to the open (read-only) file"""
    muts = []
    for a in spec_h5.REQ_ATTRS:
        muts.append(('del_attr', a))
        muts.append(('rename_attr', a))
    for g in spec_h5.REQ_GROUPS:
        muts.append(('del_group', g))
    for d in spec_h5.REQ_DATASETS:
        muts.append(('del_dataset', d))
        muts.append(('rename_dataset', d))
    for k in (0, 1):
        muts.append(('shape+1', k))
        muts.append(('shape-1', k))
    for axis in ('observation', 'sample'):
        n = len(f0[axis + '/ids'])
        if n >= 2:
            muts.append(('dup_id', axis))
        if n >= 1:
            muts.append(('blank_id', axis))
        nn = len(f0[axis + '/matrix/indices'])
        if nn >= 1:
            muts.append(('index=dim', axis))
            muts.append(('index=-1', axis))
            muts.append(('data=int32', axis))
            muts.append(('data=str', axis))
        if n >= 1:
            # a coordinate appended to the matrix copy (also of a table
            # without any entry): beyond the shape, or negative
            muts.append(('append=dim', axis))
            muts.append(('append=-1', axis))
        muts.append(('indptr_short', axis))
        muts.append(('indptr_long', axis))
        for cat in f0[axis + '/metadata']:
            muts.append(('md_short', axis + '/metadata/' + cat))
            break
    muts.append(('nnz=-1', None))
    muts.append(('nnz=1.5', None))
    return muts


def _rewrite(f, name, data, dtype=None):
    del f[name]
    if dtype is not None:
        f.create_dataset(name, data=data, dtype=dtype)
    else:
        f.create_dataset(name, data=data)


def apply_h5(f, mut):
    import h5py
    kind, arg = mut
    if kind == 'del_attr':
        del f.attrs[arg]
    elif kind == 'rename_attr':
        f.attrs[arg + '_x'] = f.attrs[arg]
        del f.attrs[arg]
    elif kind in ('del_group', 'del_dataset'):
        del f[arg]
    elif kind == 'rename_dataset':
        f.move(arg, arg + '_x')
    elif kind in ('shape+1', 'shape-1'):
        sh = list(f.attrs['shape'])
        sh[arg] += 1 if kind == 'shape+1' else -1
        f.attrs['shape'] = sh
    elif kind in ('dup_id', 'blank_id'):
        ids = list(f[arg + '/ids'][()])
        if kind == 'dup_id':
            ids[1] = ids[0]
        else:
            ids[0] = b''
        _rewrite(f, arg + '/ids', ids, h5py.special_dtype(vlen=str))
    elif kind in ('index=dim', 'index=-1'):
        idx = f[arg + '/matrix/indices'][()]
        sh = f.attrs['shape']
        dim = sh[1] if arg == 'observation' else sh[0]
        idx[0] = dim if kind == 'index=dim' else -1
        _rewrite(f, arg + '/matrix/indices', idx, np.int32)
    elif kind in ('append=dim', 'append=-1'):
        sh = f.attrs['shape']
        dim = sh[1] if arg == 'observation' else sh[0]
        idx = f[arg + '/matrix/indices'][()]
        dat = f[arg + '/matrix/data'][()]
        ptr = f[arg + '/matrix/indptr'][()]
        idx = np.append(idx, dim if kind == 'append=dim' else -1)
        dat = np.append(dat, 1.0)
        if len(ptr):
            ptr = ptr.copy()
            ptr[-1] += 1
        _rewrite(f, arg + '/matrix/indices', idx.astype(np.int32), np.int32)
        _rewrite(f, arg + '/matrix/data', dat.astype(np.float64), np.float64)
        _rewrite(f, arg + '/matrix/indptr', ptr.astype(np.int32), np.int32)
    elif kind == 'data=int32':
        d = f[arg + '/matrix/data'][()]
        _rewrite(f, arg + '/matrix/data', d.astype(np.int32), np.int32)
    elif kind == 'data=str':
        d = f[arg + '/matrix/data'][()]
        _rewrite(f, arg + '/matrix/data', [str(x).encode() for x in d],
                 h5py.special_dtype(vlen=str))
    elif kind in ('indptr_short', 'indptr_long'):
        p = f[arg + '/matrix/indptr'][()]
        p = p[:-1] if kind == 'indptr_short' else np.append(p, p[-1])
        _rewrite(f, arg + '/matrix/indptr', p, np.int32)
    elif kind == 'md_short':
        d = f[arg][()]
        dt = f[arg].dtype
        _rewrite(f, arg, d[:-1], dt if dt.kind != 'O' else
                 h5py.special_dtype(vlen=str))
    elif kind == 'nnz=-1':
        f.attrs['nnz'] = -1
    elif kind == 'nnz=1.5':
        f.attrs['nnz'] = 1.5
    else:
        raise ValueError(kind)


def h5_classes(path):
    """independent classifier on the final file (raw h5py)"""
    import h5py
    cls = set()
    with h5py.File(path, 'r') as f:
        if spec_h5.check_structure(f):
            cls.add('missing_required')
        sh = f.attrs.get('shape')
        ids = {}
        for axis in ('observation', 'sample'):
            if axis + '/ids' in f:
                raw = [spec_h5._text(x) for x in f[axis + '/ids'][()]]
                ids[axis] = raw
                if any(i == '' for i in raw):
                    cls.add('id_empty')
                if len(set(raw)) != len(raw):
                    cls.add('id_duplicate')
        if sh is not None and len(sh) == 2:
            for k, axis in ((0, 'observation'), (1, 'sample')):
                if axis in ids and int(sh[k]) != len(ids[axis]):
                    cls.add('shape_vs_ids')
            for axis in ('observation', 'sample'):
                g = axis + '/matrix'
                if g + '/indices' in f and g + '/data' in f:
                    idx = f[g + '/indices']
                    dat = f[g + '/data']
                    if idx.dtype.kind not in 'iu':
                        cls.add('wrong_element_type')
                    elif len(idx):
                        dim = int(sh[1]) if axis == 'observation' else \
                            int(sh[0])
                        v = idx[()]
                        if v.min() < 0 or v.max() >= dim:
                            cls.add('coord_out_of_shape')
                    if dat.dtype.kind != 'f':
                        cls.add('wrong_element_type')
    return cls


H5_FINDINGS = {
    'missing_required': 'C15.hdf5_missing_metadata_groups_accepted',
    'coord_out_of_shape': 'C15.hdf5_coordinates_unchecked',
    'wrong_element_type': 'C15.hdf5_element_type_unchecked',
    'id_empty': 'C15.hdf5_ids_unchecked',
    'id_duplicate': 'C15.hdf5_ids_unchecked',
}


def _h5_sweep(w, ev, slot, src, thorough):
    import h5py
    with h5py.File(src, 'r') as f0:
        muts = h5_mutations(f0)
    plans = [[m] for m in muts]
    salt = ev.get('salt', 0)
    if thorough:
        n = len(muts)
        for k in range(15):
            i = (salt * 13 + k * 19) % n
            j = (salt * 5 + k * 23 + 1) % n
            if i != j:
                plans.append([muts[i], muts[j]])
    elif ev.get('c', 0) % 3:
        # quick tier: a deterministic third of the single mutations per file
        # (every mutation kind is still reached across files); the thorough
        # tier and every third probe enumerate all of them
        plans = [p for k, p in enumerate(plans) if (k + salt) % 3 == 0]
    path = store.new_path(w, '.mut.h5.biom')
    for plan in plans:
        shutil.copyfile(src, path)
        name = '+'.join('%s(%s)' % m for m in plan)
        try:
            with h5py.File(path, 'r+') as f:
                for m in plan:
                    apply_h5(f, m)
        except Exception:  # noqa  (second mutation no longer applicable)
            continue
        try:
            cls = h5_classes(path)
        except Exception:  # noqa
            continue
        verdict, report = _validate(path)
        w.stats['fault.F4.hdf5'] += 1
        w.case('c15.reject', 'h5:' + plan[0][0], None,
               classes=tuple(sorted(cls)), pair=len(plan) > 1)
        if cls and verdict:
            fids = {H5_FINDINGS.get(c) for c in cls}
            fid = fids.pop() if len(fids) == 1 else None
            trig = True
            if fid == 'C15.hdf5_missing_metadata_groups_accepted':
                with h5py.File(path, 'r') as f:
                    missing = spec_h5.check_structure(f)
                trig = all('metadata' in x for x in missing)
            w.fail('c15.reject', 'validator reports VALID for an HDF5 file '
                   'with corruption %s (mutation %s)' % (sorted(cls), name),
                   finding=fid, trigger=trig)
    if os.path.exists(path):
        os.unlink(path)


@probe('c15_validate')
def c15_validate(w, ev, slot):
    import h5py
    import datetime
    ref = slot.ref
    t = slot.real
    thorough = w.cfg.get('tier') == 'thorough'
    if ref.type is None:
        # the validator wants a type from the controlled vocabulary: the
        # caller sets one on this very table (so that what earlier
        # operations left on it is still there)
        slot.real.type = 'OTU table'
        slot.ref.type = 'OTU table'
        ref = slot.ref
        t = slot.real
    a = ev.get('a', 0)
    out = []
    if a % 2 == 0 or not h5_grammar_ok(ref) or \
            _group_md_text(slot.real) is False:
        # JSON
        kw = {}
        if not (a >> 4) & 1:
            # otherwise: the writer's own default date (simulated clock)
            kw['creation_date'] = datetime.datetime(
                2020, 2, 3, 4, 5, 6, (a >> 5) % 2 * 654321)
        path = store.new_path(w, '.json.biom')
        if (a >> 3) & 1:
            with open(path, 'w') as f:
                t.to_json('sim-validate', direct_io=f, **kw)
            with open(path) as f:
                text = f.read()
            w.stats['c15.json.direct_io'] += 1
        else:
            text = t.to_json('sim-validate', **kw)
            with open(path, 'w') as f:
                f.write(text)
        # the version to validate against, left out or spelled out
        verdict, report = _validate(path, via_command=bool(a & 4),
                                    version=(None, '1.0.0')[(a >> 6) & 1])
        os.unlink(path)
        w.case('c15.accept', 'json', slot, ver=(a >> 6) & 1)
        if not verdict:
            w.fail('c15.accept', 'validator rejects a JSON file written by '
                   'to_json: %s' % (report,))
        _json_sweep(w, ev, slot, text, ref, thorough)
        out.append('json')
    else:
        path = store.new_path(w, '.h5.biom')
        with h5py.File(path, 'w') as f:
            if (a >> 4) & 1:
                t.to_hdf5(f, 'sim-validate', compress=bool(a & 2))
            else:
                t.to_hdf5(f, 'sim-validate', compress=bool(a & 2),
                          creation_date=datetime.datetime(
                              2020, 2, 3, 4, 5, 6, (a >> 2) % 2 * 123456))
        verdict, report = _validate(
            path, via_command=bool(a & 4),
            version=(None, '2.1', '2.1.0')[(a >> 6) % 3])
        w.case('c15.accept', 'hdf5', slot, ver=(a >> 6) % 3)
        if not verdict:
            os.unlink(path)
            w.fail('c15.accept', 'validator rejects an HDF5 file written by '
                   'to_hdf5: %s' % (report,))
        _h5_sweep(w, ev, slot, path, thorough)
        os.unlink(path)
        out.append('hdf5')
    if (a >> 8) & 1 and h5_grammar_ok(ref) and \
            _group_md_text(slot.real) is not False:
        # one path, rewritten by the library in the other format between
        # validations (JSON, HDF5, JSON): each is a library-written file
        path = store.new_path(w, '.reused.biom')
        when = datetime.datetime(2021, 3, 4, 5, 6, 7)
        for fmt in ('json', 'hdf5', 'json'):
            if fmt == 'json':
                with open(path, 'w') as f:
                    f.write(t.to_json('sim-validate', creation_date=when))
            else:
                os.unlink(path)
                with h5py.File(path, 'w') as f:
                    t.to_hdf5(f, 'sim-validate', creation_date=when)
            verdict, report = _validate(path, via_command=bool(a & 4))
            w.case('c15.accept', 'reused-path-' + fmt, slot)
            if not verdict:
                os.unlink(path)
                w.fail('c15.accept', 'validator rejects a %s file written by '
                       'the library at a path that held the other format '
                       'before: %s' % (fmt, report))
        os.unlink(path)
        w.stats['c15.path_reuse'] += 1
    w.expect_unchanged(slot, 'c15.source_changed', 'writing for validation')
    return 'c15:' + '+'.join(out)
