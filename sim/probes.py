"""`probe` events: property oracles that need storage or several calls."""

PROBES = {}


def probe(name):
    def deco(fn):
        PROBES[name] = fn
        return fn
    return deco


def ev_probe(w, ev):
    slot = w.slot(ev.get('slot', 0))
    if slot is None:
        return 'skip:nopool'
    fn = PROBES.get(ev['name'])
    if fn is None:
        raise ValueError('unknown probe %r' % ev['name'])
    w.stats['probe.' + ev['name']] += 1
    w.touch_readers(slot)
    return fn(w, ev, slot)


from . import probes_io  # noqa: E402,F401  (registers probes)
from . import probes_text  # noqa: E402,F401
from . import probes_c15  # noqa: E402,F401
from . import probes_misc  # noqa: E402,F401
