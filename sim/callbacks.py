"""Simulator-made user callbacks (DESIGN 2, 3.5 F1).

All are plain `def` closures (the compiled filter kernel only accepts
types.FunctionType).  Each records its invocations with *copies* of the
arguments (the filter kernel reuses one buffer for every vector) and can raise
InjectedFault at its k-th invocation.  The pure decision functions (`*_rule`)
are shared with the reference model, which applies them to its own data.
"""
import numpy as np

from .values import crc
from .model import plain


class InjectedFault(Exception):
    """Raised by a simulator callback; deliberately not an IndexError,
    ValueError, TypeError or TableException."""


class Recorder:
    def __init__(self, fault_at=None):
        self.calls = []
        self.fault_at = fault_at
        self.fired = False

    def tick(self, *args):
        k = len(self.calls)
        self.calls.append(args)
        if self.fault_at is not None and k == self.fault_at:
            self.fired = True
            raise InjectedFault('callback invocation %d' % k)


def _mdcopy(md):
    return None if md is None else {k: plain(v) for k, v in dict(md).items()}


# ------------------------------------------------------------ predicates ----
N_PRED = 7


def pred_rule(fam, salt, vals, id_, md):
    """pure predicate over (dense vector, id, metadata-dict-or-None)"""
    fam %= N_PRED
    vals = np.asarray(vals, dtype=float)
    if fam == 0:
        return bool(crc(salt, id_) & 1)
    if fam == 1:
        return bool(vals.sum() > (salt % 5))
    if fam == 2:
        return bool(len(vals) > 0 and vals[salt % len(vals)] != 0)
    if fam == 3:
        h = 0
        if md:
            for k in sorted(md):
                h ^= crc(salt, k, repr(md[k]))
        return bool(h & 1)
    if fam == 4:
        return bool((vals != 0).sum() >= 1 + salt % 2)
    if fam == 5:
        # depends on every position: weighted sum parity
        return bool(crc(salt, repr([float(x) + 0.0 for x in vals.tolist()]))
                    & 1)
    return True  # fam 6: keep everything


def make_pred(fam, salt, rec):
    def pred(vals, id_, md):
        v = np.array(vals, dtype=float, copy=True)
        rec.tick(v, str(id_), _mdcopy(md))
        return pred_rule(fam, salt, v, str(id_), _mdcopy(md))
    return pred


# ------------------------------------------------------------ transforms ----
N_TRANS = 8


def trans_rule(fam, salt, vals):
    """pure, permutation-equivariant map from a vector's non-zero values to
    their replacements (element-wise or through a symmetric aggregate)."""
    fam %= N_TRANS
    v = np.asarray(vals, dtype=float)
    if fam == 0:
        return v * 2.0
    if fam == 1:
        return v + 1.0
    if fam == 2:
        return -v
    if fam == 3:
        return np.where(np.abs(v) > (1 + salt % 3), v, 0.0)   # zeroes some
    if fam == 4:
        return v * float(len(v))                             # vector-wise
    if fam == 5:
        return v - v.max() if len(v) else v                  # zeroes the max
    if fam == 6:
        return v.copy()                                      # identity
    return v * 0.5 + 0.25


def trans_elementwise(fam):
    return fam % N_TRANS in (0, 1, 2, 3, 6, 7)


def make_trans(fam, salt, rec):
    def f(vals, id_, md):
        v = np.array(vals, dtype=float, copy=True)
        rec.tick(v, str(id_), _mdcopy(md))
        return trans_rule(fam, salt, v)
    return f


# ------------------------------------------------------------- labellers ----
N_LABEL = 7


def label_rule(fam, salt, id_, md):
    """partition / collapse label of one id"""
    fam %= N_LABEL
    if fam == 0:
        return 'g%d' % (crc(salt, id_) % 3)
    if fam == 1:
        return 'all'
    if fam == 2:
        return 'u_' + id_                       # injective
    if fam == 3:
        if md:
            k = sorted(md)[salt % len(md)]
            v = md[k]
            return 'm_' + (';'.join(map(str, v)) if isinstance(v, list)
                           else str(v))
        return 'nomd'
    if fam == 4:
        return None if crc(salt, id_) % 3 == 0 else 'h%d' % (crc(salt, id_) % 2)
    if fam == 6:
        # falsy labels that are not None: must never be treated as "ignored"
        return [0, '', 'x', None][crc(salt, id_) % 4]
    return ['L%d' % (crc(salt, id_) % 2), 'x']   # list-valued (unhashable)


def make_label(fam, salt, rec):
    def f(id_, md):
        rec.tick(str(id_), _mdcopy(md))
        return label_rule(fam, salt, str(id_), _mdcopy(md))
    return f


def pathways_rule(salt, id_):
    """one-to-many: list of (pathway, bin) pairs, 0..3 of them, dups allowed"""
    h = crc(salt, id_, 'otm')
    n = h % 4
    out = []
    for i in range(n):
        b = 'B%d' % ((h >> (3 * (i + 1))) % 3)
        out.append((('P', b), b))
    return out


def make_pathways(salt, rec):
    def f(id_, md):
        rec.tick(str(id_), _mdcopy(md))
        yield from pathways_rule(salt, str(id_))
    return f


# ------------------------------------------------------------ sort funcs ----
N_SORT = 4


def sort_rule(fam, ids):
    from .model import natsort
    fam %= N_SORT
    ids = [str(i) for i in ids]
    if fam == 0:
        return natsort(ids)
    if fam == 1:
        return sorted(ids, reverse=True)
    if fam == 2:
        return sorted(ids, key=lambda s: (len(s), s))
    return list(ids)


def make_sort(fam, rec):
    def f(ids):
        rec.tick([str(i) for i in ids])
        return sort_rule(fam, ids)
    return f


# -------------------------------------------------------- metadata merge ----
N_MDF = 4


def mdf_rule(fam, a, b):
    fam %= N_MDF
    if fam == 0:                      # prefer self (the documented default)
        return a if a is not None else b
    if fam == 1:                      # prefer other
        return b if b is not None else a
    out = {}
    if b:
        out.update(b)
    if a:
        out.update(a)
    if fam == 3:
        # a function whose result shows that it was applied, and to what:
        # differs from both inputs also when only one side has an entry
        out['merged_from'] = ('self' if a is not None else '') + \
            ('other' if b is not None else '') or 'neither'
        return out
    return out or None


def make_mdf(fam, rec):
    def f(a, b):
        rec.tick(_mdcopy(a), _mdcopy(b))
        return mdf_rule(fam, _mdcopy(a), _mdcopy(b))
    return f
