"""Scratch file store, simulated clock and fault-injectable text streams
(DESIGN 2: storage, clock and stream seams)."""
import datetime as _dt
import errno
import os

_REAL_DATETIME = _dt.datetime
_CLOCK = {'now': _REAL_DATETIME(2020, 1, 1, 0, 0, 0), 'reads': 0}


class SimDateTime(_REAL_DATETIME):
    """replaces the name `datetime` inside biom.table: now() reads the
    simulated clock"""

    @classmethod
    def now(cls, tz=None):
        _CLOCK['reads'] += 1
        n = _CLOCK['now']
        return cls(n.year, n.month, n.day, n.hour, n.minute, n.second,
                   n.microsecond)


def install_clock():
    import biom.table
    biom.table.datetime = SimDateTime


def set_clock(salt):
    """deterministic instant from an event's salt; microsecond both 0 and != 0
    are reached"""
    us = 0 if salt % 3 == 0 else (salt * 7919) % 1000000
    base = _REAL_DATETIME(2001, 1, 1) + _dt.timedelta(
        days=salt % 9000, seconds=(salt * 31) % 86400, microseconds=us)
    _CLOCK['now'] = base
    return base


def clock_reads():
    return _CLOCK['reads']


def as_plain(d):
    """datetime (or subclass) -> plain datetime for comparison"""
    if d is None:
        return None
    return _REAL_DATETIME(d.year, d.month, d.day, d.hour, d.minute, d.second,
                          d.microsecond)


class StreamFault(OSError):
    pass


class SimTextStream:
    """text sink passed as direct_io: records chunks; optionally fails with
    ENOSPC on its k-th write/writelines call"""

    def __init__(self, fail_at=None):
        self.chunks = []
        self.calls = 0
        self.fail_at = fail_at
        self.fired = False

    def _tick(self):
        k = self.calls
        self.calls += 1
        if self.fail_at is not None and k == self.fail_at:
            self.fired = True
            raise StreamFault(errno.ENOSPC, 'simulated: no space left')

    def write(self, s):
        self._tick()
        if not isinstance(s, str):
            raise TypeError('SimTextStream.write needs str, got %r' % type(s))
        self.chunks.append(s)
        return len(s)

    def writelines(self, lines):
        self._tick()
        for ln in lines:
            self.chunks.append(ln)

    def text(self):
        return ''.join(self.chunks)


def new_path(w, suffix):
    w.file_counter += 1
    base = w.scratch or os.getcwd()
    return os.path.join(base, 'f%d_%d%s' % (w.evidx, w.file_counter, suffix))
