"""Batch driver: seeds -> worker processes -> verdict, evidence, replay files."""
import json
import multiprocessing
import os
import sys
import time
from collections import Counter
from concurrent.futures import ProcessPoolExecutor, as_completed

from . import runner
from .profiles import PROFILES, OWNERS

VERIF = runner.VERIF

# runs per tier (count-bounded so a batch is exactly repeatable; the wall cap
# can only shorten it and the evidence then says so)
QUICK_RUNS = {'default': 5000, 'C01': 4000, 'C04': 4000, 'C14': 1500,
              'C15': 700, 'C02': 6000, 'C03': 6000, 'C12': 3000,
              'C08': 4000, 'C06': 10000, 'C07': 10000, 'C13': 8000,
              'C18': 8000, 'C19': 8000, 'C10': 8000, 'C11': 8000,
              'C09': 8000}
THOROUGH_FACTOR = 12
QUICK_BUDGET = 150.0
THOROUGH_BUDGET = 900.0

LEVEL = {'C15': 'fault_enumeration', 'C20': 'fault_enumeration'}


def base_seed():
    return int(os.environ.get('VERIF_SEED', '0'))


def seeds_for(nruns):
    b = base_seed()
    return [b * 1000003 + i for i in range(nruns)]


def check(prop, tier, args):
    t0 = time.time()
    if prop not in PROFILES:
        print('HARNESS-ERROR: no check for %s' % prop)
        return 2
    profile = PROFILES[prop]
    if profile.get('engine') == 'c20':
        from . import c20
        return c20.check(tier, args)
    args.runs_given = args.runs is not None
    nruns = args.runs or QUICK_RUNS.get(prop, QUICK_RUNS['default'])
    budget = args.budget or QUICK_BUDGET
    if tier == 'thorough':
        nruns = args.runs or nruns * THOROUGH_FACTOR
        budget = args.budget or THOROUGH_BUDGET
    seeds = seeds_for(nruns)
    nw = max(1, min(args.workers, len(seeds)))
    # small interleaved blocks so a wall cap truncates evenly
    nblocks = nw * 4
    blocks = [seeds[i::nblocks] for i in range(nblocks)]
    blocks = [b for b in blocks if b]
    deadline = t0 + budget
    owners = OWNERS[prop]
    jobs = [(b, profile, tier, prop, owners, deadline) for b in blocks]
    aggs = []
    harness = []
    ctx = multiprocessing.get_context('fork')
    pool_restarts = 0
    def run_pool(todo):
        gone = []
        with ProcessPoolExecutor(max_workers=nw, mp_context=ctx) as ex:
            futs = {ex.submit(runner.worker, j): j for j in todo}
            for f in as_completed(futs):
                try:
                    aggs.append(f.result(timeout=budget + 600))
                except Exception as e:  # noqa
                    gone.append((futs[f], e))
        return gone
    died = run_pool(jobs)
    if died:
        # one dead worker breaks the whole pool and takes every unfinished
        # block with it: run those blocks again in a fresh pool first; only
        # blocks that are lost a second time are taken apart run by run
        print('NOTE: worker pool broke (%r); %d blocks are run again'
              % (died[0][1], len(died)))
        again = [(j[0], j[1], j[2], j[3], j[4], time.time() + budget)
                 for j, _ in died]
        first_death = died[0][1]
        died = run_pool(again)
        if not died:
            print('NOTE: all blocks completed in the second pool')
            pool_restarts = 1
    crash_viols = []
    worker_deaths = 0
    if died:
        # a worker process was killed (e.g. a segfault in a compiled kernel):
        # find the run and event in fresh interpreters with write-ahead logs
        lost = [sd for j, _ in died for sd in j[0]]
        crash_viols = runner.isolate_crash(prop, tier, lost, owners)
        redone = getattr(runner.isolate_crash, 'completed', 0)
        if not crash_viols and redone == len(lost):
            # every run the dead worker(s) held was executed again, one per
            # fresh interpreter, ran to its end and held: nothing is left
            # unexplored (a watchdog or the OOM killer on an overloaded
            # machine, not the library)
            print('NOTE: a worker process died (%r); its %d runs were '
                  're-executed in fresh interpreters and completed'
                  % (died[0][1], len(lost)))
            worker_deaths = len(died)
        elif not crash_viols:
            harness.append('worker died: %r (not reproduced in isolation: '
                           '%d of %d runs completed)' % (died[0][1], redone,
                                                         len(lost)))
    tot = {'runs': 0, 'events': 0, 'stats': Counter(), 'cases': set(),
           'probe_count': Counter(), 'known_seen': Counter(),
           'violations': [], 'signals': [], 'samples': [], 'digests': {},
           'truncated': False}
    tot['violations'] += crash_viols
    tot['stats']['worker_deaths_reexecuted'] += worker_deaths + pool_restarts
    for a in aggs:
        tot['runs'] += a['runs']
        tot['events'] += a['events']
        tot['stats'].update(a['stats'])
        tot['cases'] |= set(a['cases'])
        tot['probe_count'].update(a['probe_count'])
        tot['known_seen'].update(a['known_seen'])
        tot['violations'] += a['violations']
        tot['signals'] += a['signals']
        tot['samples'] += a['samples']
        tot['digests'].update(a['digests'])
        tot['truncated'] = tot['truncated'] or a['truncated']
        harness += a['harness_errors']
    sweep = None
    from .sweeps import SWEEPS, SPACE
    if prop in SWEEPS and not getattr(args, 'no_sweep', False) and \
            (not args.runs_given or getattr(args, 'sweep', False)):
        sweep = run_sweep(prop, tier, owners, nw, t0 + budget * 2, ctx)
        tot['violations'] += sweep['violations']
        tot['signals'] += sweep['signals']
        tot['cases'] |= set(sweep['oracle_cases'])
        tot['probe_count'].update(sweep['probe_count'])
        tot['known_seen'].update(sweep['known_seen'])
        harness += sweep['harness']
        tot['sweep'] = {'space': SPACE[prop], 'cases': sweep['cases'],
                        'events': sweep['events'],
                        'exhaustive': not sweep['truncated'],
                        'sample': sweep['sample']}
    wall = time.time() - t0
    if args.digests:
        with open(args.digests, 'w') as f:
            json.dump({str(k): v for k, v in sorted(tot['digests'].items())},
                      f)
    known = runner.load_known()
    for fid, cnt in sorted(tot['known_seen'].items()):
        e = known.get(fid, {})
        if e.get('property') == prop:
            print('KNOWN-FINDING: property=%s %s (%s; seen %d times)'
                  % (prop, fid, e.get('what', ''), cnt))
    viols = sorted(tot['violations'], key=lambda v: (v['replay'] is None,
                                                     v.get('events', 999),
                                                     v['seed']))
    if not args.no_evidence:
        write_evidence(prop, tier, tot, viols, wall, nruns, harness)
    if harness:
        for h in harness[:3]:
            print('HARNESS-ERROR: %s' % h[-2000:])
        if not viols:
            return 2
    if viols:
        for v in viols[:5]:
            if v['replay']:
                print('VIOLATION property=%s replay=%s' % (prop, v['replay']))
                print('  oracle=%s seed=%d events=%d: %s'
                      % (v['oracle'], v['seed'], v.get('events', -1),
                         v['detail'][:500].replace('\n', ' | ')))
        return 1
    print('OK property=%s tier=%s runs=%d events=%d cases=%d wall=%.1fs%s%s'
          % (prop, tier, tot['runs'], tot['events'], len(tot['cases']), wall,
             ' (wall cap hit: batch shortened)' if tot['truncated'] else '',
             ' sweep=%d cases%s' % (tot['sweep']['cases'], '' if
                                    tot['sweep']['exhaustive'] else
                                    ' (NOT exhaustive: wall cap)')
             if tot.get('sweep') else ''))
    if tot['signals']:
        print('note: %d other-property signals (see evidence)'
              % len(tot['signals']))
        for sg in tot['signals'][:3]:
            print('  signal: oracle=%s seed=%s: %s'
                  % (sg['oracle'], sg.get('seed', sg.get('case')),
                     sg['detail'][:300].replace('\n', ' | ')))
    return 0


def run_sweep(prop, tier, owners, nw, deadline, ctx):
    nchunks = nw * 4
    jobs = [(prop, tier, c, nchunks, owners, deadline) for c in range(nchunks)]
    out = {'cases': 0, 'events': 0, 'violations': [], 'signals': [],
           'truncated': False, 'oracle_cases': set(), 'harness': [],
           'probe_count': Counter(), 'known_seen': Counter(), 'sample': None}
    with ProcessPoolExecutor(max_workers=nw, mp_context=ctx) as ex:
        futs = [ex.submit(runner.sweep_worker, j) for j in jobs]
        for f in as_completed(futs):
            try:
                a = f.result()
            except Exception as e:  # noqa
                import traceback
                out['harness'].append(''.join(
                    traceback.format_exception(e))[-2500:])
                continue
            out['cases'] += a['cases']
            out['events'] += a['events']
            out['violations'] += a['violations']
            out['signals'] += a['signals']
            out['truncated'] = out['truncated'] or a['truncated']
            out['oracle_cases'] |= set(a['oracle_cases'])
            out['probe_count'].update(a['probe_count'])
            out['known_seen'].update(a['known_seen'])
            out['sample'] = out['sample'] or a['sample']
    return out


def write_evidence(prop, tier, tot, viols, wall, planned, harness):
    owners = OWNERS[prop]
    own_cases = [c for c in tot['cases']
                 if runner.owns(owners, eval_first(c))]
    evals = sum(v for k, v in tot['probe_count'].items()
                if runner.owns(owners, k))
    stats = tot['stats']
    faults = {}
    for k in ('F1', 'F2', 'F5', 'F6'):
        faults[k] = {'armed': stats.get('fault.%s.armed' % k, 0),
                     'fired': stats.get('fault.%s.fired' % k, 0)}
    layouts = Counter()
    for c in tot['cases']:
        try:
            lay = eval(c, {}, {})[2]
            if isinstance(lay, tuple):
                layouts['%s/%s/%s' % (lay[0], 'sorted' if lay[1] else
                                      'UNSORTED', 'stored0' if lay[2]
                                      else 'nozero')] += 1
        except Exception:  # noqa
            pass
    ev = {
        'property_id': prop, 'tier': tier, 'seed': base_seed(),
        'level': LEVEL.get(prop, 'exploration'),
        'coverage': {
            'evaluations': int(max(evals, 0)),
            'distinct_nontrivial': len(own_cases),
            'rule': 'seeded scheduler draws event sequences (new / op / read '
                    '/ perturb / spawn / step / probe) over a pool of live '
                    'tables; a case is one evaluation of an oracle owned by '
                    'this property; distinct = distinct tuples (oracle, '
                    'operation, receiver layout class (format, sorted '
                    'indices, stored zeros) read from raw arrays before the '
                    'call, shape class, metadata presence, suspended reader '
                    'present, op arguments class such as axis/inplace/fault)',
            'samples': tot['samples'][:3],
            'runs': tot['runs'], 'planned_runs': planned,
            'events': tot['events'],
            'runs_per_hour': int(tot['runs'] / wall * 3600) if wall else 0,
            'seeds': {'first': base_seed() * 1000003, 'count': planned},
            'wall_cap_hit': bool(tot['truncated']),
            'faults': faults,
            'perturbations': {k[8:]: v for k, v in stats.items()
                              if k.startswith('perturb.')},
            'ops': {k[3:]: v for k, v in stats.items()
                    if k.startswith('op.')},
            'reads': {k[5:]: v for k, v in stats.items()
                      if k.startswith('read.')},
            'probes': {k[6:]: v for k, v in stats.items()
                       if k.startswith('probe.')},
            'reader_interleaved_steps': stats.get('reader.interleaved_steps',
                                                  0),
            'reader_steps': sum(v for k, v in stats.items()
                                if k.startswith('step.')),
            'layout_classes_reached': dict(layouts),
            'rare': {k: v for k, v in stats.items() if k.startswith('rare.')},
            'swarm': {k: v for k, v in stats.items()
                      if k.startswith('swarm.') or k.startswith('bias.')},
            'continued_after_other_property_signal': stats.get('resync', 0),
            'other': {k: v for k, v in stats.items()
                      if k.split('.')[0] in ('merge', 'concat', 'result',
                                             'model', 'slot', 'c01', 'c02',
                                             'c03', 'c04', 'c14', 'c15',
                                             'c16', 'c18', 'c19', 'c12',
                                             'c13')},
            'simulated_time': 'the library has no timers; the simulated clock '
                              'only feeds creation dates (%d stamped)'
                              % stats.get('clock.stamped', 0),
            'components': {
                'real': ['biom Python code from the working tree',
                         'compiled kernels _filter/_transform/_subsample '
                         '(.so present; .pyx cannot be rebuilt: no Cython)',
                         'numpy, scipy, h5py/libhdf5, pandas, gzip, the file '
                         'system for path loads'],
                'simulated': ['scheduler (order of calls, reader steps, '
                              'layout perturbations)', 'clock', 'RNG seeds',
                              'user callbacks', 'text streams',
                              'warnings/stdout capture',
                              'CLI entry (in-process callbacks)']},
            'small_scope_sweep': tot.get('sweep'),
            'other_property_signals': tot['signals'][:10],
            'known_findings_seen': dict(tot['known_seen']),
            'harness_errors': len(harness),
            'worker_deaths_reexecuted_in_isolation': stats.get(
                'worker_deaths_reexecuted', 0),
        },
        'assumptions': [
            'sampling, not enumeration: a clean batch is evidence over the '
            'seeds explored',
            'reference model (sim/model.py, ops*.py) written from the '
            'property statements is itself correct',
            'PYTHONHASHSEED=0, LC_ALL=C, TZ=UTC pinned by re-exec'],
        'wall_s': round(wall, 2),
        'violations': len(viols),
    }
    os.makedirs(os.path.join(VERIF, 'evidence'), exist_ok=True)
    with open(os.path.join(VERIF, 'evidence', '%s.json' % prop), 'w') as f:
        json.dump(ev, f, indent=1, sort_keys=True, default=str)


def eval_first(case_repr):
    try:
        return eval(case_repr, {}, {})[0]
    except Exception:  # noqa
        return ''
