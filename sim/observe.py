"""Non-perturbing observation of a real biom.Table (DESIGN 3.3, 4.2).

Nothing here may change the table's hidden representation: only ids(),
index(), exists(), metadata(), shape, type, table_id and a *copy* of
matrix_data are read.
"""
import hashlib

import numpy as np

from .model import canon_md, AXNAME


def dense_of(t):
    """Dense float matrix from a copy of the sparse matrix."""
    m = t.matrix_data
    return np.asarray(m.copy().toarray(), dtype=float)


def ids_of(t, ax):
    return [str(x) for x in t.ids(axis=AXNAME[ax])]


def md_of(t, ax):
    md = t.metadata(axis=AXNAME[ax])
    if md is None:
        return None
    return canon_md(md)


class Snap:
    __slots__ = ('ids', 'm', 'md', 'type', 'table_id', 'shape')

    def __init__(self, t):
        self.ids = [ids_of(t, 0), ids_of(t, 1)]
        self.m = dense_of(t)
        self.md = [md_of(t, 0), md_of(t, 1)]
        self.type = t.type
        self.table_id = t.table_id
        self.shape = tuple(t.shape)

    def digest(self):
        h = hashlib.sha1()
        h.update(repr(self.ids).encode('utf8', 'surrogatepass'))
        h.update(np.ascontiguousarray(self.m + 0.0).tobytes())
        h.update(repr(self.md).encode('utf8', 'surrogatepass'))
        h.update(repr((self.type, self.table_id, self.shape)).encode('utf8'))
        return h.hexdigest()


def layout_class(t):
    """(format, sorted indices?, stored zeros?) from copies of the raw arrays,
    never through scipy's caching properties."""
    m = t.matrix_data
    fmt = m.getformat()
    stored_zero = False
    sorted_idx = True
    if fmt in ('csr', 'csc'):
        data = np.array(m.data, copy=True)
        indptr = np.array(m.indptr, copy=True)
        indices = np.array(m.indices, copy=True)
        stored_zero = bool((data == 0).any())
        for i in range(len(indptr) - 1):
            seg = indices[indptr[i]:indptr[i + 1]]
            if len(seg) > 1 and (np.diff(seg) <= 0).any():
                sorted_idx = False
                break
    elif fmt == 'coo':
        stored_zero = bool((np.array(m.data, copy=True) == 0).any())
        sorted_idx = False
    return (fmt, sorted_idx, stored_zero)


def diff_ref(snap, ref, check_type=True):
    """None if the snapshot equals the model, else a short description."""
    for ax in (0, 1):
        if snap.ids[ax] != ref.ids[ax]:
            return '%s ids %r != model %r' % (AXNAME[ax], snap.ids[ax],
                                              ref.ids[ax])
    if snap.m.shape != ref.m.shape:
        return 'matrix shape %r != model %r' % (snap.m.shape, ref.m.shape)
    if not np.array_equal(snap.m, ref.m):
        bad = np.argwhere(snap.m != ref.m)
        r, c = bad[0]
        return 'matrix differs at %d cells, first (%s,%s): real %r model %r' % (
            len(bad), ref.ids[0][r], ref.ids[1][c], float(snap.m[r, c]),
            float(ref.m[r, c]))
    for ax in (0, 1):
        if not md_equal(snap.md[ax], ref.md[ax]):
            return '%s metadata %r != model %r' % (AXNAME[ax], snap.md[ax],
                                                   ref.md[ax])
    if check_type and snap.type != ref.type:
        return 'type %r != model %r' % (snap.type, ref.type)
    return None


def md_equal(a, b):
    """metadata equality on canonical forms; lists == tuples; numbers by =="""
    if a is None or b is None:
        return a is None and b is None
    if len(a) != len(b):
        return False
    return all(_val_eq(x, y) for x, y in zip(a, b))


def _val_eq(x, y):
    if isinstance(x, dict) and isinstance(y, dict):
        # the key sets must agree exactly: a key silently inserted with a
        # None value (e.g. by reading a default-None mapping with []) makes
        # the table != an otherwise identical one
        if set(x) != set(y):
            return False
        return all(_val_eq(x[k], y[k]) for k in x)
    if isinstance(x, (list, tuple)) and isinstance(y, (list, tuple)):
        return len(x) == len(y) and all(_val_eq(p, q) for p, q in zip(x, y))
    if isinstance(x, bool) or isinstance(y, bool):
        return x == y
    if isinstance(x, float) and isinstance(y, float):
        return x == y or (x != x and y != y)
    if isinstance(x, str) or isinstance(y, str):
        return isinstance(x, str) and isinstance(y, str) and x == y
    return x == y


def coherence(t, absent_probe):
    """DESIGN 3.3-2.  Returns None or a description of the incoherence."""
    from biom.exception import UnknownIDError
    shape = tuple(t.shape)
    n_o = len(t.ids(axis='observation'))
    n_s = len(t.ids(axis='sample'))
    if shape != (n_o, n_s):
        return 'shape %r but %d observation ids and %d sample ids' % (
            shape, n_o, n_s)
    for ax in (0, 1):
        name = AXNAME[ax]
        ids = ids_of(t, ax)
        if len(set(ids)) != len(ids):
            return 'duplicate %s ids %r' % (name, ids)
        for pos, i in enumerate(ids):
            if not t.exists(i, axis=name):
                return 'exists(%r, %s) is False for a listed id' % (i, name)
            try:
                got = t.index(i, axis=name)
            except Exception as e:  # noqa
                return 'index(%r, %s) raised %r' % (i, name, e)
            if got != pos:
                return 'index(%r, %s) = %r but position is %d' % (
                    i, name, got, pos)
        probe = absent_probe
        while probe in ids:
            probe += '?'
        if t.exists(probe, axis=name):
            return 'exists(%r, %s) is True for an absent id' % (probe, name)
        try:
            t.index(probe, axis=name)
            return 'index(%r, %s) did not raise for an absent id' % (probe,
                                                                     name)
        except UnknownIDError:
            pass
        except Exception as e:  # noqa
            return 'index(%r, %s) raised %r, not UnknownIDError' % (
                probe, name, e)
        md = t.metadata(axis=name)
        if md is not None and len(md) != len(ids):
            return '%s metadata has %d entries for %d ids' % (
                name, len(md), len(ids))
    return None
