"""Run seeds, shrink violations, write replays and evidence (DESIGN 5, 8)."""
import hashlib
import json
import os
import random
import shutil
import sys
import tempfile
import time
import traceback
import faulthandler
from collections import Counter

VERIF = os.path.dirname(os.path.dirname(os.path.abspath(__file__)))


class HarnessError(Exception):
    pass


def repo_path():
    return os.environ.get('VERIF_REPO', '/repo')


def load_known():
    p = os.path.join(VERIF, 'known_findings.json')
    if not os.path.exists(p):
        return {}
    with open(p) as f:
        doc = json.load(f)
    return {e['id']: e for e in doc.get('findings', [])
            if e.get('status') == 'open'}


def _is_library_frame(fn):
    fn = os.path.abspath(fn)
    if fn.startswith(os.path.join(VERIF, '')):
        return False
    return True


def classify_exception(e):
    """an exception that escaped from an event: did it come out of library
    code (then it is behaviour of the system under test) or from the
    harness?"""
    tb = traceback.extract_tb(e.__traceback__)
    if not tb:
        return 'harness'
    last = tb[-1].filename
    return 'library' if _is_library_frame(last) else 'harness'


def run_events(events, cfg, known, upto=None, collect=None, owners=None):
    """execute an event list in a fresh world.  Returns (violation-or-None,
    world).  Library exceptions escaping an event become violations of the
    oracle '<kind>.<name>.raised'."""
    from .world import World, Violation, reset_process_state
    reset_process_state()
    w = World(cfg, known)
    w.owners = owners
    viol = None
    signal = None          # first failure of an oracle the property does not own
    try:
        for i, ev in enumerate(events):
            if upto is not None and i > upto:
                break
            try:
                w.execute(ev)
                continue
            except Violation as v:
                viol = {'oracle': v.oracle, 'detail': v.detail, 'event': i,
                        'finding': v.finding}
            except Exception as e:  # noqa
                if classify_exception(e) != 'library':
                    if signal is not None:
                        break       # harness trouble after a resync: stop here
                    raise
                viol = {'oracle': '%s.%s.raised' % (ev['k'],
                                                    ev.get('name', '')),
                        'detail': 'unexpected %r\n%s' % (
                            e, ''.join(traceback.format_exception(e))[-1500:]),
                        'event': i, 'finding': None}
            viol = _owned_followup(w, viol, owners)
            if owners is None or owns(owners, viol['oracle']):
                if signal is not None:
                    viol['detail'] += ' [the run had continued after %s at ' \
                        'event %d]' % (signal['oracle'], signal['event'])
                break
            # not this property's oracle: remember it, re-synchronise the
            # models with the real tables and carry on with the schedule
            if signal is None:
                signal = viol
            viol = None
            try:
                w.resync()
            except Exception:  # noqa
                break
        if viol is None:
            viol = signal
    finally:
        dig = w.digest()
        if collect is not None:
            collect(w)
        w.close()
    return viol, w, dig


def _owned_followup(w, viol, owners):
    """a failed oracle that the checked property does not own stops the run;
    before giving up, evaluate the always-on invariants once more: if one the
    property does own fails as well, that is the violation to report"""
    from .world import Violation
    if owners is None or viol is None or owns(owners, viol['oracle']):
        return viol
    try:
        w.check_all()
    except Violation as v2:
        if owns(owners, v2.oracle):
            return {'oracle': v2.oracle, 'detail': v2.detail + ' [after %s]'
                    % viol['oracle'], 'event': viol['event'],
                    'finding': v2.finding}
    except Exception:  # noqa
        pass
    return viol


OP_ORACLE = {
    'filter': 'filter.result', 'remove_empty': 'remove_empty.result',
    'head': 'head.result', 'sort': 'reorder.result',
    'sort_order': 'reorder.result', 'transpose': 'reorder.result',
    'align_to': 'reorder.result', 'copy': 'copy.result',
    'update_ids': 'rename.result', 'add_metadata': 'metadata.add',
    'del_metadata': 'metadata.del', 'transform': 'transform.result',
    'norm': 'norm.result', 'pa': 'pa.result', 'rankdata': 'rank.result',
    'subsample': 'subsample.result', 'collapse': 'collapse.result',
    'partition': 'partition.parts', 'merge': 'merge.result',
    'concat': 'concat.result'}


def crash_oracle(ev):
    """oracle name for 'the process died inside this event' (segfault in a
    compiled kernel or in libhdf5): owned like the event's result oracle"""
    k = ev.get('k')
    name = ev.get('name', '')
    if k == 'op':
        return OP_ORACLE.get(name, name) + '.crashed'
    if k == 'probe':
        return name.split('_')[0] + '.crashed'
    if k in ('spawn', 'step'):
        return 'reader.crashed'
    return '%s.%s.crashed' % (k, name)


def run_seed(seed, profile, tier, known, scratch, owners=None, wal=None):
    """generate-and-execute one run.  Returns a result dict.  With `wal`
    (an open file) every event is logged durably before it is executed."""
    from .world import World, Violation, reset_process_state
    from .gen import Gen, draw_cfg
    rng = random.Random('%d:gen' % seed)
    cfg = draw_cfg(rng, profile, tier)
    cfg['scratch'] = scratch
    reset_process_state()
    w = World(cfg, known)
    w.owners = owners
    gen = Gen(rng, cfg)
    # which swarm configuration this run drew (evidence)
    w.stats['swarm.focus' if cfg.get('focus') else 'swarm.broad'] += 1
    for knob in ('habit', 'faults', 'vfam', 'alpha', 'fault_rate'):
        w.stats['swarm.%s.%s' % (knob, cfg.get(knob))] += 1
    events = []
    viol = None
    signal = None
    t0 = time.time()
    try:
        for step in range(cfg['len']):
            ev = gen.next(w)
            events.append(ev)
            if wal is not None:
                wal.write(json.dumps(ev) + '\n')
                wal.flush()
                os.fsync(wal.fileno())
            try:
                w.execute(ev)
                continue
            except Violation as v:
                viol = {'oracle': v.oracle, 'detail': v.detail,
                        'event': len(events) - 1, 'finding': v.finding}
            except Exception as e:  # noqa
                if classify_exception(e) != 'library':
                    if signal is not None:
                        break   # harness trouble after a resync: stop here
                    raise HarnessError('seed %d event %d %r: %s' % (
                        seed, len(events) - 1, ev,
                        ''.join(traceback.format_exception(e))))
                viol = {'oracle': '%s.%s.raised' % (ev['k'],
                                                    ev.get('name', '')),
                        'detail': 'unexpected %r\n%s' % (
                            e, ''.join(traceback.format_exception(e))[-1500:]),
                        'event': len(events) - 1, 'finding': None}
            viol = _owned_followup(w, viol, owners)
            if owners is None or owns(owners, viol['oracle']):
                if signal is not None:
                    viol['detail'] += ' [the run had continued after %s at ' \
                        'event %d]' % (signal['oracle'], signal['event'])
                break
            # another property's oracle: remember the first one, take the
            # real state as the new starting point, carry on (run_events
            # does the same on replay)
            if signal is None:
                signal = viol
            viol = None
            try:
                w.resync()
            except Exception:  # noqa
                break
        if viol is None:
            viol = signal
    finally:
        res = {'seed': seed, 'events': events, 'cfg': cfg, 'viol': viol,
               'digest': w.digest(), 'stats': w.stats, 'cases': w.cases,
               'probe_count': w.probe_count, 'known_seen': w.known_seen,
               'n_events': len(events), 'trace': w.trace}
        w.close()
    return res


# ------------------------------------------------------------------ shrink --
def same_failure(a, b):
    return a is not None and b is not None and a['oracle'] == b['oracle']


def shrink(events, cfg, known, viol, budget_s=30.0, max_runs=300,
           owners=None):
    """ddmin over the event list, then per-event simplification; keeps a
    candidate only if the same oracle still fails."""
    t0 = time.time()
    runs = [0]

    def fails(cand):
        if runs[0] >= max_runs or time.time() - t0 > budget_s:
            return None
        runs[0] += 1
        try:
            v, _, _ = run_events(cand, cfg, known, owners=owners)
        except Exception:  # noqa
            return None
        return v if same_failure(v, viol) else None

    cur = events[:viol['event'] + 1]
    curv = viol
    n = 2
    while len(cur) >= 2:
        chunk = max(1, len(cur) // n)
        reduced = False
        for start in range(0, len(cur), chunk):
            cand = cur[:start] + cur[start + chunk:]
            if not cand:
                continue
            v = fails(cand)
            if v:
                cur = cand[:v['event'] + 1]
                curv = v
                n = max(n - 1, 2)
                reduced = True
                break
        if not reduced:
            if chunk == 1:
                break
            n = min(len(cur), n * 2)
        if runs[0] >= max_runs or time.time() - t0 > budget_s:
            break
    # simplify arguments
    simpler = {'twin': 0, 'fault': None, 'unk': 0, 'inv': 0, 'rot': 0,
               'rev': 0, 'cont': 0, 'mdo': 0, 'mds': 0, 'type': 0, 'tid': 0,
               'ids_as': 0, 'route': 0, 'extra': 0, 'salt': 0, 'dup': 0,
               'sparse': 0, 'dunder': 0, 'form': 0}
    for i in range(len(cur)):
        for key, val in simpler.items():
            if key in cur[i] and cur[i][key] != val:
                cand = [dict(e) for e in cur]
                cand[i][key] = val
                v = fails(cand)
                if v and v['event'] == len(cand) - 1 or (v and
                                                         v['event'] < len(cand)):
                    cur = cand[:v['event'] + 1]
                    curv = v
        if cur[i]['k'] == 'new':
            for key in ('nr', 'nc'):
                while cur[i].get(key, 1) > 1:
                    cand = [dict(e) for e in cur]
                    cand[i][key] = cur[i][key] - 1
                    v = fails(cand)
                    if not v:
                        break
                    cur = cand[:v['event'] + 1]
                    curv = v
                    if i >= len(cur):
                        break
                if i >= len(cur):
                    break
        if i >= len(cur) - 1:
            break
    return cur, curv, runs[0]


def write_replay(prop, seed, events, cfg, viol, digest, minimised_from,
                 outdir=None):
    import numpy
    import scipy
    import h5py
    outdir = outdir or os.path.join(VERIF, 'replays')
    os.makedirs(outdir, exist_ok=True)
    short = hashlib.sha1(json.dumps(events, sort_keys=True).encode()
                         ).hexdigest()[:10]
    path = os.path.join(outdir, '%s-%d-%s.json' % (prop, seed, short))
    cfg = {k: v for k, v in cfg.items() if k != 'scratch'}
    doc = {'property': prop, 'oracle': viol['oracle'], 'seed': seed,
           'cfg': cfg, 'events': events,
           'violation': {'event': viol['event'], 'detail': viol['detail']},
           'digest': digest, 'minimised_from': minimised_from,
           'versions': {'python': sys.version.split()[0],
                        'numpy': numpy.__version__,
                        'scipy': scipy.__version__, 'h5py': h5py.__version__},
           'engine': 'world'}
    with open(path, 'w') as f:
        json.dump(doc, f, indent=1, sort_keys=True)
    return path


# ------------------------------------------------------------------ worker --
def worker(args):
    """run a block of seeds; returns aggregated statistics and the first
    violations (each shrunk)"""
    (seeds, profile, tier, prop, owners, deadline) = args
    faulthandler.enable()
    known = load_known()
    scratch = tempfile.mkdtemp(prefix='verif-%s-' % prop)
    agg = {'runs': 0, 'events': 0, 'stats': Counter(), 'cases': set(),
           'probe_count': Counter(), 'known_seen': Counter(),
           'violations': [], 'signals': [], 'samples': [], 'digests': {},
           'harness_errors': [], 'truncated': False}
    cwd = os.getcwd()
    os.chdir(scratch)
    try:
        for seed in seeds:
            if time.time() > deadline:
                agg['truncated'] = True
                break
            faulthandler.dump_traceback_later(300, exit=True)
            try:
                res = run_seed(seed, profile, tier, known, scratch, owners)
            except HarnessError as e:
                agg['harness_errors'].append(str(e)[-3000:])
                continue
            finally:
                faulthandler.cancel_dump_traceback_later()
            agg['runs'] += 1
            agg['events'] += res['n_events']
            agg['stats'].update(res['stats'])
            agg['cases'] |= res['cases']
            agg['probe_count'].update(res['probe_count'])
            agg['known_seen'].update(res['known_seen'])
            agg['digests'][seed] = res['digest']
            if len(agg['samples']) < 2 and res['n_events'] >= 3:
                agg['samples'].append({'seed': seed,
                                       'events': res['events'][:12],
                                       'outcomes': res['trace'][:12]})
            v = res['viol']
            if v is None:
                continue
            owned = owns(owners, v['oracle'])
            if not owned:
                if len(agg['signals']) < 20:
                    agg['signals'].append({'seed': seed, 'oracle': v['oracle'],
                                           'detail': v['detail'][:400]})
                continue
            if len(agg['violations']) >= 3:
                agg['violations'].append({'seed': seed, 'oracle': v['oracle'],
                                          'detail': v['detail'][:400],
                                          'replay': None})
                continue
            cfg = res['cfg']
            faulthandler.dump_traceback_later(180, exit=True)
            try:
                small, sv, nruns = shrink(res['events'], cfg, known, v,
                                          owners=owners)
                # verify determinism of the minimised list in this process
                v2, _, dig = run_events(small, cfg, known, owners=owners)
                if not same_failure(v2, sv):
                    small, sv = res['events'][:v['event'] + 1], v
                    v2, _, dig = run_events(small, cfg, known,
                                            owners=owners)
            finally:
                faulthandler.cancel_dump_traceback_later()
            path = write_replay(prop, seed, small, cfg, sv, dig,
                                len(res['events']))
            agg['violations'].append({'seed': seed, 'oracle': sv['oracle'],
                                      'detail': sv['detail'][:600],
                                      'replay': path,
                                      'events': len(small)})
    finally:
        os.chdir(cwd)
        shutil.rmtree(scratch, ignore_errors=True)
    agg['cases'] = sorted(agg['cases'])
    return agg


def owns(owners, oracle):
    """owners: list of oracle names / prefixes owned by the checked property"""
    if oracle.startswith('probe.'):
        # a library exception that escaped from a probe (no more specific
        # oracle caught it): the probe's property owns it, e.g.
        # 'probe.c16_export.raised' belongs to the owner of 'c16'
        name = oracle.split('.')[1]
        for o in owners:
            if name == o or name.startswith(o + '_'):
                return True
    for o in owners:
        if o.startswith('*'):
            if oracle.endswith(o[1:]):
                return True
        elif oracle == o or oracle.startswith(o + '.') or \
                (o.endswith('*') and oracle.startswith(o[:-1])):
            return True
    return False


def sweep_worker(args):
    """run every nchunks-th case of a property's small-scope sweep"""
    (prop, tier, chunk, nchunks, owners, deadline) = args
    from .sweeps import SWEEPS, SWEEP_CFG
    faulthandler.enable()
    known = load_known()
    scratch = tempfile.mkdtemp(prefix='verif-sweep-%s-' % prop)
    cwd = os.getcwd()
    os.chdir(scratch)
    agg = {'cases': 0, 'events': 0, 'violations': [], 'signals': [],
           'truncated': False, 'oracle_cases': set(), 'probe_count': Counter(),
           'known_seen': Counter(), 'sample': None}
    cfg = dict(SWEEP_CFG, scratch=scratch, tier=tier)
    try:
        for i, evs in enumerate(SWEEPS[prop](tier)):
            if i % nchunks != chunk:
                continue
            if time.time() > deadline:
                agg['truncated'] = True
                break
            got = {}
            v, w, dig = run_events(evs, cfg, known, owners=owners,
                                   collect=lambda ww: got.update(
                                       cases=set(ww.cases),
                                       pc=Counter(ww.probe_count),
                                       ks=Counter(ww.known_seen)))
            agg['cases'] += 1
            agg['events'] += len(evs)
            agg['oracle_cases'] |= got.get('cases', set())
            agg['probe_count'].update(got.get('pc', {}))
            agg['known_seen'].update(got.get('ks', {}))
            if agg['sample'] is None:
                agg['sample'] = evs
            if v is None:
                continue
            if not owns(owners, v['oracle']):
                if len(agg['signals']) < 10:
                    agg['signals'].append({'case': i, 'oracle': v['oracle'],
                                           'detail': v['detail'][:300]})
                continue
            if len(agg['violations']) >= 3:
                continue
            small, sv, _ = shrink(evs, cfg, known, v, owners=owners,
                                  budget_s=15)
            v2, _, dig = run_events(small, cfg, known, owners=owners)
            if not same_failure(v2, sv):
                small, sv = evs[:v['event'] + 1], v
                v2, _, dig = run_events(small, cfg, known, owners=owners)
            path = write_replay(prop, 900000000 + i, small, cfg, sv, dig,
                                len(evs))
            agg['violations'].append({'seed': 900000000 + i,
                                      'oracle': sv['oracle'],
                                      'detail': sv['detail'][:600],
                                      'replay': path, 'events': len(small)})
    finally:
        os.chdir(cwd)
        shutil.rmtree(scratch, ignore_errors=True)
    agg['oracle_cases'] = sorted(agg['oracle_cases'])
    return agg


def isolated_seed(prop, tier, seed, walpath):
    """entry point of a fresh interpreter running one seed with a write-ahead
    event log; writes <walpath>.result on normal completion"""
    from .profiles import PROFILES, OWNERS
    from . import ops2, probes  # noqa
    known = load_known()
    scratch = tempfile.mkdtemp(prefix='verif-iso-')
    os.chdir(scratch)
    try:
        with open(walpath, 'w') as wal:
            res = run_seed(seed, PROFILES[prop], tier, known, scratch,
                           OWNERS[prop], wal=wal)
        cfg_out = {k: v for k, v in res['cfg'].items() if k != 'scratch'}

        def dump(viol, events):
            tmpf = walpath + '.result.tmp'
            with open(tmpf, 'w') as f:
                json.dump({'viol': viol, 'cfg': cfg_out, 'events': events}, f)
                f.flush()
                os.fsync(f.fileno())
            os.replace(tmpf, walpath + '.result')
        v = res['viol']
        dump(v, res['events'][:v['event'] + 1] if v else None)
        if v and owns(OWNERS[prop], v['oracle']):
            # minimise here, never in the parent: the library under test may
            # corrupt the heap; the unminimised result is already durable
            small, sv, _ = shrink(res['events'], res['cfg'], known, v,
                                  budget_s=15, owners=OWNERS[prop])
            dump(sv, small)
    finally:
        os.chdir('/')
        shutil.rmtree(scratch, ignore_errors=True)
    return 0


def isolate_crash(prop, tier, seeds, owners, max_found=2):
    """a worker process died: re-run the given seeds one per fresh
    interpreter (16 at a time) to find the run and event that kills the
    process.  Returns violation records (with replay files)."""
    import subprocess
    from concurrent.futures import ThreadPoolExecutor
    from .profiles import PROFILES
    from .gen import draw_cfg
    found = []
    completed = []          # seeds whose isolated run ran to its end
    tmp = tempfile.mkdtemp(prefix='verif-wal-')

    def one(seed):
        if len(found) >= max_found:
            return
        wal = os.path.join(tmp, '%d.wal' % seed)
        env = dict(os.environ)
        try:
            r = subprocess.run([sys.executable, os.path.join(VERIF, 'bin',
                                                             'check.py'),
                                prop, '--tier', tier, '--isolated', str(seed),
                                '--wal', wal], env=env, capture_output=True,
                               text=True, timeout=900)
        except subprocess.TimeoutExpired:
            return
        if os.path.exists(wal + '.result'):
            completed.append(seed)
            # the run completed: an ordinary violation found by it still
            # counts (the crashed pool lost every worker's results)
            try:
                res = json.load(open(wal + '.result'))
            finally:
                for pth in (wal, wal + '.result', wal + '.result.tmp'):
                    if os.path.exists(pth):
                        os.unlink(pth)
            v = res.get('viol')
            if v and owns(owners, v['oracle']) and len(found) < max_found:
                cfg = dict(res['cfg'])
                small = res.get('events') or []
                path = write_replay(prop, seed, small, cfg, v,
                                    'after-pool-crash', len(small))
                found.append({'seed': seed, 'oracle': v['oracle'],
                              'detail': v['detail'][:500], 'replay': path,
                              'events': len(small)})
            return
        if not os.path.exists(wal):
            return
        events = [json.loads(ln) for ln in open(wal) if ln.strip()]
        os.unlink(wal)
        if not events:
            return
        oracle = crash_oracle(events[-1])
        cfg = draw_cfg(random.Random('%d:gen' % seed), PROFILES[prop], tier)
        viol = {'oracle': oracle, 'event': len(events) - 1, 'finding': None,
                'detail': 'the interpreter died (exit status %r) while '
                          'executing this event; stderr tail: %s'
                          % (r.returncode, (r.stderr or '')[-300:])}
        if not owns(owners, oracle):
            return
        path = write_replay(prop, seed, events, cfg, viol, 'process-died',
                            len(events))
        found.append({'seed': seed, 'oracle': oracle,
                      'detail': viol['detail'][:500], 'replay': path,
                      'events': len(events)})
    try:
        with ThreadPoolExecutor(max_workers=16) as ex:
            list(ex.map(one, seeds))
    finally:
        shutil.rmtree(tmp, ignore_errors=True)
    isolate_crash.completed = len(completed)
    return found
