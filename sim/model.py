"""Dense reference model of a BIOM table (DESIGN 4.1, Appendix A).

Pure Python + numpy, no scipy, no import of biom.  Every operation is written
from the property statements / docstrings.  Where a property leaves something
open, the operation returns a constraint that the caller verifies on the real
result before adopting the unspecified aspect.
"""
import copy
import re

import numpy as np

OBS, SAMP = 0, 1
AXNAME = ('observation', 'sample')


class ModelError(Exception):
    """The model says: this call must be refused (any exception)."""


class Ref:
    __slots__ = ('ids', 'm', 'md', 'type', 'table_id', 'generated_by',
                 'create_date', 'group_md')

    def __init__(self, oids, sids, m, omd=None, smd=None, type=None,
                 table_id=None):
        self.ids = [list(oids), list(sids)]
        self.m = np.array(m, dtype=float).reshape(len(oids), len(sids))
        self.md = [canon_md(omd), canon_md(smd)]
        self.type = type
        self.table_id = table_id
        self.generated_by = None
        self.create_date = None
        self.group_md = [None, None]

    # -- helpers ------------------------------------------------------------
    def copy(self):
        r = Ref(self.ids[0], self.ids[1], self.m.copy(),
                copy.deepcopy(self.md[0]), copy.deepcopy(self.md[1]),
                self.type, self.table_id)
        r.generated_by = self.generated_by
        r.create_date = self.create_date
        r.group_md = copy.deepcopy(self.group_md)
        return r

    @property
    def shape(self):
        return self.m.shape

    def vec(self, ax, i):
        return self.m[i, :].copy() if ax == OBS else self.m[:, i].copy()

    def n(self, ax):
        return len(self.ids[ax])

    def mdl(self, ax):
        """metadata as list of dicts (empty dicts when absent)"""
        if self.md[ax] is None:
            return [{} for _ in self.ids[ax]]
        return self.md[ax]

    def md_or_none(self, ax, i):
        return None if self.md[ax] is None else self.md[ax][i]

    def is_empty(self):
        return self.m.shape[0] == 0 or self.m.shape[1] == 0

    def take(self, ax, idx):
        """new Ref with positions idx (list) kept on axis ax, in that order"""
        idx = list(idx)
        ids = [self.ids[0][:], self.ids[1][:]]
        ids[ax] = [self.ids[ax][i] for i in idx]
        m = self.m[idx, :] if ax == OBS else self.m[:, idx]
        md = [copy.deepcopy(self.md[0]), copy.deepcopy(self.md[1])]
        if md[ax] is not None:
            md[ax] = [md[ax][i] for i in idx]
        r = Ref(ids[0], ids[1], m, md[0], md[1], self.type, self.table_id)
        return r

    def transposed(self):
        return Ref(self.ids[1], self.ids[0], self.m.T.copy(),
                   copy.deepcopy(self.md[1]), copy.deepcopy(self.md[0]),
                   None, self.table_id)

    def same_content(self, other, check_type=True):
        return (self.ids == other.ids and self.m.shape == other.m.shape and
                np.array_equal(self.m, other.m) and self.md == other.md and
                (not check_type or self.type == other.type))


def canon_md(md):
    """None, or list of plain dicts; 'every entry empty' is the same as None."""
    if md is None:
        return None
    out = []
    for e in md:
        if e is None:
            out.append({})
        else:
            out.append({k: plain(v) for k, v in dict(e).items()})
    if not any(out):
        return None
    return out


def plain(v):
    if isinstance(v, np.generic):
        return v.item()
    if isinstance(v, np.ndarray):
        return [plain(x) for x in v.tolist()]
    if isinstance(v, tuple):
        # kept distinct from lists: the library's == distinguishes them
        return tuple(plain(x) for x in v)
    if isinstance(v, list):
        return [plain(x) for x in v]
    if isinstance(v, dict):
        return {k: plain(x) for k, x in v.items()}
    if isinstance(v, bytes):
        return v.decode('utf8')
    return v


# ------------------------------------------------------------- natsort ----
_NUM = re.compile(r'(\d+(?:\.\d+)?)')


def natsort_key(item):
    """Digit runs (optionally with one decimal part) compare as numbers and
    sort before text chunks; ties broken by the raw string."""
    s = str(item)
    chunks = _NUM.split(s)
    key = []
    for c in chunks:
        if c and c[0].isdigit() and c[0] in '0123456789':
            key.append((0, float(c) if '.' in c else int(c)))
        else:
            key.append((1, c))
    return (key, s)


def natsort(ids):
    return sorted(ids, key=natsort_key)


# ---------------------------------------------------------------- ranks ----
def rank_nonzero(vals, method):
    """ranks 1..k of vals among themselves (scipy.stats.rankdata semantics,
    written independently).  For 'ordinal' returns (ranks, groups) where
    groups lists tied blocks whose internal assignment is unspecified."""
    vals = list(vals)
    k = len(vals)
    order = sorted(range(k), key=lambda i: vals[i])
    ranks = [0.0] * k
    i = 0
    dense = 0
    while i < k:
        j = i
        while j + 1 < k and vals[order[j + 1]] == vals[order[i]]:
            j += 1
        dense += 1
        block = order[i:j + 1]
        lo, hi = i + 1, j + 1
        for pos, ix in enumerate(block):
            if method == 'average':
                ranks[ix] = (lo + hi) / 2.0
            elif method == 'min':
                ranks[ix] = float(lo)
            elif method == 'max':
                ranks[ix] = float(hi)
            elif method == 'dense':
                ranks[ix] = float(dense)
            elif method == 'ordinal':
                # stable: ties keep their order of appearance
                ranks[ix] = float(lo + sorted(block).index(ix))
            else:
                raise ValueError(method)
        i = j + 1
    return ranks
