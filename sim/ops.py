"""Executors for `new`, `op` and `perturb` events (DESIGN 3.2, Appendix A/D).

Every argument is decoded *against the current state*, so any subsequence of
an event list is executable.  An event whose precondition fails is a recorded
no-op ('skip:<why>')."""
import copy

import numpy as np

from . import values as V
from . import callbacks as CB
from .callbacks import InjectedFault, Recorder
from .model import (Ref, AXNAME, ModelError, canon_md, natsort, rank_nonzero,
                    plain)
from .observe import Snap, diff_ref, md_equal, layout_class, coherence
from .build import build_table, ROUTES
from .world import Violation, ref_from_snap


# ===================================================================== new ==
def decode_new(w, ev):
    nr = max(1, min(V.MAXN, ev.get('nr', 2)))
    nc = max(1, min(V.MAXN, ev.get('nc', 2)))
    stride = max(nc, ev.get('stride', nc))
    cells = ev.get('cells') or [1]
    m = np.zeros((nr, nc))
    for r in range(nr):
        for c in range(nc):
            m[r, c] = V.value(w.vfam, cells[(r * stride + c) % len(cells)])
    alpha = w.alpha
    ids = []
    for ax, key, n in ((0, 'io', nr), (1, 'is', nc)):
        idx = ev.get(key) or list(range(n))
        out = []
        for j in range(n):
            cand = V.fresh_id(alpha, ax, idx[j % len(idx)] + (j // len(idx)),
                              set(out))
            out.append(cand)
        ids.append(out)
    salt = ev.get('salt', 0)
    md = []
    for ax, key in ((0, 'mdo'), (1, 'mds')):
        mask = ev.get(key, 0)
        if mask:
            md.append([V.md_entry(mask, salt + ax, i, w.ctrl_md)
                       for i in ids[ax]])
        else:
            md.append(None)
    typ = V.TABLE_TYPES[ev.get('type', 0) % len(V.TABLE_TYPES)]
    tid = [None, 'tbl-1', 'an id with spaces'][ev.get('tid', 0) % 3]
    return Ref(ids[0], ids[1], m, md[0], md[1], typ, tid)


def ev_new(w, ev):
    ref = decode_new(w, ev)
    real = build_table(ref, ev.get('route', 0), ev.get('salt', 0),
                       ev.get('ids_as', 0))
    w.expect_table(real, ref, 'construct', what='new table')
    w.add_slot(real, ref, ev.get('dst'))
    w.case('construct', ROUTES[ev.get('route', 0) % len(ROUTES)])
    return 'new %dx%d' % ref.shape


# ================================================================ dispatch ==
def ev_op(w, ev):
    slot = w.slot(ev.get('slot', 0))
    if slot is None:
        return 'skip:nopool'
    name = ev['name']
    fn = OPS.get(name)
    if fn is None:
        raise ValueError('unknown op %r' % name)
    w.stats['op.' + name] += 1
    return fn(w, ev, slot)


def _call(fn):
    """run fn; classify the outcome"""
    try:
        return 'ok', fn()
    except Violation:
        raise
    except InjectedFault as e:
        return 'fault', e
    except Exception as e:  # noqa
        return 'exc', e


def _mutating(w, slot):
    """a slot about to be mutated loses its suspended readers"""
    w.drop_readers(slot)


def _flagged(w, ev, slot, name, do, expected, oracle, approx=None,
             after=None, fault_possible=False, check_type=True):
    """Run an operation that has an `inplace` flag.

    do(real, inplace) performs the real call with fresh callbacks and returns
    (result, post) where post() checks the recorded callback invocations.
    expected: Ref (model result) or ModelError instance (must be refused).
    With ev['twin'] both variants run: first non-in-place (result compared,
    receiver must be unchanged), then in place (must return the receiver and
    leave it in the same state)."""
    inplace = bool(ev.get('inp', 1))
    twin = bool(ev.get('twin', 0))
    refuse = isinstance(expected, ModelError)
    out = []
    iform = ev.get('iform', 0) % 3
    if iform:
        # the documented boolean may arrive as a numpy bool (the result of a
        # comparison) or as 0/1
        typed_do = do

        def do(real, inpl):
            return typed_do(real, np.bool_(inpl) if iform == 1 else int(inpl))
    # F6: the 'empty' kind set to 'raise' by a scoped override around an
    # operation that empties the table: TableException must come out, the
    # profile must be restored, a non-in-place call must leave everything
    # untouched, an in-place call must leave a coherent receiver
    f6 = bool(ev.get('f6')) and ev.get('fault') is None and \
        name in ('filter', 'remove_empty') and \
        not refuse
    f6_raises = f6 and expected.is_empty()
    if f6:
        from biom.err import errstate
        from biom.exception import TableException
        plain_do = do
        w.stats['fault.F6.armed'] += 1

        def do(real, inpl):
            with errstate(empty='raise'):
                return plain_do(real, inpl)
    if f6_raises:
        w.stats['fault.F6.fired'] += 1
        w.case('f6.empty_raise', name, slot, inplace=inplace, twin=twin)
        if twin or not inplace:
            status, res = _call(lambda: do(slot.real, False))
            if status != 'exc' or not isinstance(res, TableException):
                w.fail(oracle + '.f6', '%s(inplace=False) under errstate('
                       'empty=raise) emptied the table but %s'
                       % (name, 'returned' if status == 'ok' else
                          'raised %r' % (res,)))
            w.expect_unchanged(slot, oracle + '.receiver_changed',
                               '%s(inplace=False) refused by the profile'
                               % name)
        if inplace:
            _mutating(w, slot)
            status, res = _call(lambda: do(slot.real, True))
            if status != 'exc' or not isinstance(res, TableException):
                w.fail(oracle + '.f6', '%s(inplace=True) under errstate('
                       'empty=raise) emptied the table but %s'
                       % (name, 'returned' if status == 'ok' else
                          'raised %r' % (res,)))
            w.adopt(slot)
            if slot.ref.is_empty():
                w.retire(slot)
        return '%s:f6-raised' % name
    w.case(oracle, name, slot, ax=ev.get('ax', 0) & 1, inplace=inplace,
           twin=twin, fault=ev.get('fault') is not None, refuse=refuse)
    w.case('inplace.equiv' if inplace else 'noninplace.receiver_changed',
           name, slot, twin=twin, fault=ev.get('fault') is not None)

    twin_snap = None

    def compare(real_t, what):
        if approx is not None:
            approx(real_t, expected, what)
        else:
            w.expect_table(real_t, expected, oracle, check_type, what)

    if twin or not inplace:
        status, res = _call(lambda: do(slot.real, False))
        if status == 'fault':
            w.stats['fault.F1.fired'] += 1
            w.expect_unchanged(slot, oracle + '.receiver_changed',
                               '%s(inplace=False) aborted by callback' % name)
            out.append('fault')
        elif status == 'exc':
            if not refuse:
                w.fail(oracle + '.raised', '%s(inplace=False) raised %r'
                       % (name, res))
            w.expect_unchanged(slot, oracle + '.refused_changed',
                               '%s refused but receiver changed' % name)
            out.append('refused')
        else:
            result, post = res
            if refuse:
                msg = coherence(result, w.absent_id())
                if msg:
                    w.fail(oracle + '.incoherent', '%s(inplace=False) accepted'
                           ' (%s) and returned an incoherent table: %s'
                           % (name, expected, msg))
                w.fail(oracle + '.accepted', '%s(inplace=False) accepted: %s'
                       % (name, expected))
            if result is slot.real:
                w.fail(oracle + '.returned_self',
                       '%s(inplace=False) returned the receiver' % name)
            w.expect_unchanged(slot, oracle + '.receiver_changed',
                               '%s(inplace=False)' % name)
            compare(result, '%s(inplace=False) result' % name)
            if post:
                post()
            out.append('ok')
            if inplace:
                twin_snap = Snap(result)
            if not inplace:
                exp = expected
                if approx is not None:
                    exp = ref_from_snap(Snap(result), slot.ref)
                if exp.is_empty():
                    w.stats['result.empty'] += 1
                else:
                    ns = w.add_slot(result, exp.copy(), ev.get('dst'))
                    if after:
                        after(ns)
    if inplace:
        _mutating(w, slot)
        status, res = _call(lambda: do(slot.real, True))
        if status == 'fault':
            w.stats['fault.F1.fired'] += 1
            w.adopt(slot)
            out.append('fault')
        elif status == 'exc':
            if not refuse and twin_snap is not None:
                # the non-in-place variant has just returned a table from
                # the same state: the two variants are not equivalent
                w.fail(oracle + '.inplace_raised', '%s(inplace=True) raised '
                       '%r where %s(inplace=False) returned a table'
                       % (name, res, name))
            if not refuse:
                w.fail(oracle + '.raised', '%s(inplace=True) raised %r'
                       % (name, res))
            w.expect_unchanged(slot, oracle + '.refused_changed',
                               '%s refused but receiver changed' % name)
            out.append('refused')
        else:
            result, post = res
            if refuse:
                msg = coherence(slot.real, w.absent_id())
                if msg:
                    w.fail(oracle + '.incoherent', '%s(inplace=True) accepted '
                           '(%s) and left an incoherent receiver: %s'
                           % (name, expected, msg))
                w.fail(oracle + '.accepted', '%s(inplace=True) accepted: %s'
                       % (name, expected))
            if result is not slot.real:
                w.fail(oracle + '.inplace_returns_other',
                       '%s(inplace=True) did not return the receiver' % name)
            compare(slot.real, '%s(inplace=True) receiver' % name)
            if post:
                post()
            if twin_snap is not None:
                # both variants ran from the same state: "the in-place
                # variant leaves the receiver in exactly the state the
                # non-in-place variant returns" (float results of summing
                # operations to 1e-12)
                now = Snap(slot.real)
                same = now.ids == twin_snap.ids and \
                    now.m.shape == twin_snap.m.shape and \
                    md_equal(now.md[0], twin_snap.md[0]) and \
                    md_equal(now.md[1], twin_snap.md[1])
                if same and name in ('norm',):
                    same = bool(np.allclose(now.m, twin_snap.m, rtol=1e-12,
                                            atol=0, equal_nan=True))
                elif same:
                    same = bool(np.array_equal(now.m, twin_snap.m))
                if not same:
                    w.fail('inplace.equiv', '%s: in place gives %r / %r, not '
                           'in place gave %r / %r' % (
                               name, now.ids, now.m.tolist(), twin_snap.ids,
                               twin_snap.m.tolist()))
            if approx is not None:
                slot.ref = ref_from_snap(Snap(slot.real), slot.ref)
            else:
                keep = slot.ref
                slot.ref = expected.copy()
                slot.ref.generated_by = keep.generated_by
            out.append('ok')
            if slot.ref.is_empty():
                w.stats['result.empty'] += 1
                w.retire(slot)
            elif after:
                after(slot)
    return '%s:%s' % (name, '+'.join(out))


def _newtable(w, ev, slot, name, do, expected, oracle, args=(), adopt=None,
              check_type=True, post=None):
    """Operation documented to return a new table.  `expected` Ref, ModelError
    or None with `adopt(result)` -> Ref verifying constraints and adopting
    what the property leaves open."""
    refuse = isinstance(expected, ModelError)
    w.case(oracle, name, slot, ax=ev.get('ax', 0) & 1,
           fault=ev.get('fault') is not None, refuse=refuse)
    w.case('newtable.input_changed', name, slot, nargs=len(args),
           fault=ev.get('fault') is not None)
    status, res = _call(lambda: do(slot.real))
    others = [slot] + list(args)
    if status == 'fault':
        w.stats['fault.F1.fired'] += 1
        for s in others:
            w.expect_unchanged(s, oracle + '.input_changed',
                               '%s aborted by callback' % name)
        return name + ':fault'
    if status == 'exc':
        if not refuse:
            w.fail(oracle + '.raised', '%s raised %r' % (name, res))
        for s in others:
            w.expect_unchanged(s, oracle + '.refused_changed',
                               '%s refused but an input changed' % name)
        return name + ':refused'
    if refuse:
        msg = None
        try:
            msg = coherence(res, w.absent_id())
        except Exception:  # noqa
            pass
        if msg:
            w.fail(oracle + '.incoherent', '%s accepted (%s) and returned an '
                   'incoherent table: %s' % (name, expected, msg))
        w.fail(oracle + '.accepted', '%s accepted: %s' % (name, expected))
    for s in others:
        if res is s.real:
            w.fail(oracle + '.returned_input',
                   '%s returned one of its inputs' % name)
        w.expect_unchanged(s, oracle + '.input_changed', name)
    if adopt is not None:
        exp = adopt(res)
    else:
        exp = expected
        w.expect_table(res, exp, oracle, check_type, name + ' result')
    if post:
        post()
    if exp.is_empty():
        w.stats['result.empty'] += 1
    else:
        w.add_slot(res, exp.copy(), ev.get('dst'))
    return name + ':ok'


def _sel(mask, n):
    """positions selected by bitmask among n (never empty)"""
    sel = [i for i in range(n) if mask >> i & 1]
    return sel or [0]


# ================================================================== filter ==
def _md_call_eq(a, b):
    """metadata as seen by a callback: None and {} are one state"""
    return md_equal([a or {}], [b or {}])


def _check_vec_calls(w, rec, ref, ax, oracle, opname):
    n = ref.n(ax)
    calls = rec.calls
    if rec.fault_at is not None and rec.fired:
        n = rec.fault_at + 1
    if len(calls) != n:
        w.fail(oracle, '%s: callback invoked %d times for %d ids'
               % (opname, len(calls), n))
    for i, (vals, id_, md) in enumerate(calls):
        if id_ != ref.ids[ax][i]:
            w.fail(oracle, '%s: invocation %d got id %r, expected %r'
                   % (opname, i, id_, ref.ids[ax][i]))
        want = ref.vec(ax, i)
        if vals.shape != want.shape or not np.array_equal(vals, want):
            w.fail(oracle, '%s: invocation %d (id %r) got vector %r, true '
                   'vector %r' % (opname, i, id_, vals.tolist(),
                                  want.tolist()),
                   finding='C08.predicate_unsorted_indices')
        if not _md_call_eq(md, ref.md_or_none(ax, i)):
            w.fail(oracle, '%s: invocation %d (id %r) got metadata %r, '
                   'expected %r' % (opname, i, id_, md,
                                    ref.md_or_none(ax, i)))


def op_filter(w, ev, slot):
    ref = slot.ref
    ax = ev.get('ax', 0) & 1
    ids = ref.ids[ax]
    n = len(ids)
    invert = bool(ev.get('inv', 0))
    by = ev.get('by', 0) & 1
    fault = ev.get('fault')
    recs = []
    if by == 0:
        sel = _sel(ev.get('mask', 1), n)
        rot = ev.get('rot', 0) % len(sel)
        order = sel[rot:] + sel[:rot]
        if ev.get('rev'):
            order = order[::-1]
        names = [ids[i] for i in order]
        unknown = bool(ev.get('unk', 0))
        if unknown:
            names.insert(ev.get('rot', 0) % (len(names) + 1),
                         w.absent_like(ids, ev.get('unk', 1)))
        cont = ev.get('cont', 0) % 5

        def mkarg():
            if cont == 0:
                return list(names)
            if cont == 1:
                return tuple(names)
            if cont == 2:
                return set(names)
            if cont == 3:
                return np.array(names)
            return dict.fromkeys(names).keys()
        keepset = set(sel)
        keep = [i for i in range(n) if (i in keepset) != invert]
        if unknown:
            w.stats['fault.F2.armed'] += 1
            expected = ModelError('unknown id named')
        else:
            expected = ref.take(ax, keep)

        def do(real, inplace):
            if ev.get('pos'):
                # the documented positional order
                r = real.filter(mkarg(), AXNAME[ax], invert, inplace)
            else:
                r = real.filter(mkarg(), axis=AXNAME[ax], invert=invert,
                                inplace=inplace)
            return r, None
        res = _flagged(w, ev, slot, 'filter', do, expected,
                       'filter.unknown_id' if unknown else 'filter.result')
        if unknown:
            w.stats['fault.F2.fired'] += 1
        return res
    fam, salt = ev.get('fam', 0), ev.get('salt', 0)
    keep = [i for i in range(n)
            if CB.pred_rule(fam, salt, ref.vec(ax, i), ids[i],
                            ref.md_or_none(ax, i)) != invert]
    expected = ref.take(ax, keep)
    if fault is not None:
        w.stats['fault.F1.armed'] += 1

    def do(real, inplace):
        rec = Recorder(fault)
        pred = CB.make_pred(fam, salt, rec)
        try:
            r = real.filter(pred, axis=AXNAME[ax], invert=invert,
                            inplace=inplace)
        except InjectedFault:
            _check_vec_calls(w, rec, ref, ax, 'filter.predicate_args',
                             'filter')
            raise

        def post():
            _check_vec_calls(w, rec, ref, ax, 'filter.predicate_args',
                             'filter')
        return r, post
    out = _flagged(w, ev, slot, 'filter', do, expected, 'filter.result')
    # filter-by-predicate == filter-by-the-ids-it-accepted (fresh copies)
    return out


def op_remove_empty(w, ev, slot):
    ref = slot.ref
    axis = ev.get('ax', 2) % 3
    exp = ref
    for ax in ((1, 0) if axis == 2 else (axis,)):
        keep = [i for i in range(exp.n(ax)) if (exp.vec(ax, i) != 0).any()]
        exp = exp.take(ax, keep)
    name = ('observation', 'sample', 'whole')[axis]

    def do(real, inplace):
        if ev.get('pos'):
            return real.remove_empty(name, inplace), None
        return real.remove_empty(axis=name, inplace=inplace), None
    return _flagged(w, ev, slot, 'remove_empty', do, exp,
                    'remove_empty.result')


def op_head(w, ev, slot):
    ref = slot.ref
    n, m = ev.get('n', 1), ev.get('m', 1)
    if n <= 0 or m <= 0:
        expected = ModelError('n, m must be positive')
    else:
        expected = ref.take(0, range(min(n, ref.n(0)))).take(
            1, range(min(m, ref.n(1))))

    def do(real):
        return real.head(n, m)
    def adopt(res):
        # the leading block is specified; the table type of the result is not
        expected.type = res.type
        w.expect_table(res, expected, 'head.result', True, 'head result')
        return expected
    return _newtable(w, ev, slot, 'head', do, expected, 'head.result',
                     adopt=None if isinstance(expected, ModelError) else adopt)


# ============================================================== reordering ==
def _perm(code, n):
    """permutation of range(n) from Lehmer digits (each mod remaining)"""
    items = list(range(n))
    out = []
    code = list(code or [0])
    for j in range(n):
        d = code[j % len(code)] % len(items)
        out.append(items.pop(d))
    return out


def op_sort_order(w, ev, slot):
    ref = slot.ref
    ax = ev.get('ax', 0) & 1
    perm = _perm(ev.get('perm'), ref.n(ax))
    names = [ref.ids[ax][i] for i in perm]
    unknown = bool(ev.get('unk', 0))
    dup = bool(ev.get('dup', 0)) and len(names) >= 2 and not unknown
    if unknown:
        w.stats['fault.F2.armed'] += 1
        names[ev.get('salt', 0) % len(names)] = w.absent_like(
            ref.ids[ax], ev.get('unk', 1))
        expected = ModelError('unknown id in order')
    elif dup:
        # an order naming an id twice is not a permutation: it cannot yield
        # a table (ids must stay unique)
        k = ev.get('salt', 0) % len(names)
        if ev.get('dup') == 1:
            names.append(names[k])
        else:
            names[(k + 1) % len(names)] = names[k]
        expected = ModelError('order repeats an id')
    else:
        expected = ref.take(ax, perm)
    form = ev.get('form', 0) % 3

    def do(real):
        arg = [list(names), np.array(names), tuple(names)][form]
        if ev.get('pos'):
            return real.sort_order(arg, AXNAME[ax])
        return real.sort_order(arg, axis=AXNAME[ax])
    out = _newtable(w, ev, slot, 'sort_order', do, expected,
                    'sort_order.unknown_id' if unknown else 'reorder.result')
    if unknown:
        w.stats['fault.F2.fired'] += 1
    return out


def op_sort(w, ev, slot):
    ref = slot.ref
    ax = ev.get('ax', 0) & 1
    fam = ev.get('fam', 0)
    fault = ev.get('fault')
    order = CB.sort_rule(fam, ref.ids[ax])
    pos = {i: k for k, i in enumerate(ref.ids[ax])}
    expected = ref.take(ax, [pos[i] for i in order])

    def do(real):
        if fam % CB.N_SORT == 0 and fault is None and not ev.get('explicit'):
            return real.sort(axis=AXNAME[ax])          # library default natsort
        rec = Recorder(0 if fault is not None else None)
        sort_f = CB.make_sort(fam, rec)
        if ev.get('form', 0) % 3:
            # the order comes back as a tuple / an array instead of a list
            inner, conv = sort_f, (tuple, np.array)[ev['form'] % 3 - 1]

            def sort_f(ids):
                return conv(inner(ids))
        if ev.get('pos'):
            return real.sort(sort_f, AXNAME[ax])
        return real.sort(sort_f, axis=AXNAME[ax])
    if fault is not None:
        w.stats['fault.F1.armed'] += 1
    return _newtable(w, ev, slot, 'sort', do, expected, 'reorder.result')


def op_transpose(w, ev, slot):
    ref = slot.ref
    expected = ref.transposed()

    def adopt(res):
        expected.type = res.type   # transpose is not documented to carry type
        w.expect_table(res, expected, 'reorder.result', True, 'transpose')
        return expected
    return _newtable(w, ev, slot, 'transpose', lambda r: r.transpose(), None,
                     'reorder.result', adopt=adopt)


def op_copy(w, ev, slot):
    return _newtable(w, ev, slot, 'copy', lambda r: r.copy(), slot.ref.copy(),
                     'copy.result')


def op_align_to(w, ev, slot):
    other = w.slot(ev.get('partner', 1))
    ref, oref = slot.ref, other.ref
    mode = ('sample', 'observation', 'both', 'detect')[ev.get('mode', 3) % 4]
    al = [set(ref.ids[a]) == set(oref.ids[a]) for a in (0, 1)]
    if mode == 'both':
        axes = [0, 1] if al[0] and al[1] else None
    elif mode == 'sample':
        axes = [1] if al[1] else None
    elif mode == 'observation':
        axes = [0] if al[0] else None
    else:
        axes = [a for a in (1, 0) if al[a]] or None
    if axes is None:
        expected = ModelError('not alignable')
    else:
        expected = ref
        for a in axes:
            pos = {i: k for k, i in enumerate(expected.ids[a])}
            expected = expected.take(a, [pos[i] for i in oref.ids[a]])
    args = [other] if other is not slot else []

    def do(real):
        if ev.get('pos'):
            return real.align_to(other.real, mode)
        return real.align_to(other.real, axis=mode)
    return _newtable(w, ev, slot, 'align_to', do, expected, 'reorder.result',
                     args=args)


def _rename_map(w, ev, ref, ax):
    ids = ref.ids[ax]
    n = len(ids)
    sel = _sel(ev.get('mask', (1 << n) - 1), n)
    fam = ev.get('fam', 0) % 6
    salt = ev.get('salt', 0)
    m = {}
    if fam == 0:                                   # lengthen
        for i in sel:
            m[ids[i]] = ids[i] + '_r%d' % (salt % 100)
    elif fam == 1:                                 # shorten
        for k, i in enumerate(sel):
            m[ids[i]] = 'n%d' % k
    elif fam == 2:                                 # rotate names among sel
        for k, i in enumerate(sel):
            m[ids[i]] = ids[sel[(k + 1) % len(sel)]]
    elif fam == 3:                                 # collision inside the map
        for i in sel:
            m[ids[i]] = 'dup'
        if len(sel) == 1 and n > 1:
            other = (sel[0] + 1) % n
            m[ids[other]] = 'dup'
    elif fam == 4:                                 # collide with an unmapped id
        tgt = ids[(sel[0] + 1) % n]
        m[ids[sel[0]]] = tgt
    else:                                          # fresh ids from the pool
        taken = set(ids)
        for k, i in enumerate(sel):
            new = V.fresh_id(w.alpha, ax, salt + k, taken)
            taken.add(new)
            m[ids[i]] = new
    if ev.get('extra'):
        # a key that is not in the table (ignored): its target is a name of
        # its own, or the very name another, real, id is renamed to
        tgts = [v for k, v in m.items()]
        m[w.absent_id()] = tgts[salt % len(tgts)] \
            if tgts and salt % 2 else 'ghost'
    return m


def op_update_ids(w, ev, slot):
    ref = slot.ref
    ax = ev.get('ax', 0) & 1
    strict = bool(ev.get('strict', 0))
    idmap = _rename_map(w, ev, ref, ax)
    ids = ref.ids[ax]
    if strict and any(i not in idmap for i in ids):
        expected = ModelError('strict and an id lacks a mapping')
    else:
        new = [idmap.get(i, i) for i in ids]
        if len(set(new)) != len(new):
            expected = ModelError('renaming is not injective')
        else:
            expected = ref.copy()
            expected.ids[ax] = new

    def do(real, inplace):
        if ev.get('pos'):
            return real.update_ids(dict(idmap), AXNAME[ax], strict,
                                   inplace), None
        return real.update_ids(dict(idmap), axis=AXNAME[ax], strict=strict,
                               inplace=inplace), None
    return _flagged(w, ev, slot, 'update_ids', do, expected, 'rename.result')


# ================================================================ metadata ==
def op_add_metadata(w, ev, slot):
    ref = slot.ref
    ax = ev.get('ax', 0) & 1
    ids = ref.ids[ax]
    sel = _sel(ev.get('mask', 1), len(ids))
    salt = ev.get('salt', 0)
    keymask = ev.get('keys', 1) or 1
    mapping = {}
    for i in sel:
        mapping[ids[i]] = V.md_entry(keymask, salt, ids[i], w.ctrl_md)
    for k in range(ev.get('extra', 0) % 3):
        # ids the table does not have: unrelated ones and look-alikes of
        # ids it has (an existing id as prefix, a prefix, a case variant)
        ghost = '%s~%d' % (w.absent_id(), k) if (salt + k) % 2 else \
            w.absent_like(ids, 1 + salt % 13 + k)
        if ghost in ids or ghost in mapping:
            continue
        mapping[ghost] = V.md_entry(keymask, salt, ghost)
    exp = ref.copy()
    cur = [dict(d) for d in exp.mdl(ax)]
    for i in sel:
        cur[i].update(copy.deepcopy(mapping[ids[i]]))
    exp.md[ax] = canon_md(cur)
    before = copy.deepcopy(mapping)
    _mutating(w, slot)
    w.case('metadata.add', 'add_metadata', slot, ax=ax)
    if ev.get('pos'):
        status, res = _call(lambda: slot.real.add_metadata(mapping,
                                                           AXNAME[ax]))
    else:
        status, res = _call(lambda: slot.real.add_metadata(mapping,
                                                           axis=AXNAME[ax]))
    if status != 'ok':
        w.fail('metadata.add.raised', 'add_metadata raised %r' % res)
    w.expect_table(slot.real, exp, 'metadata.add', True, 'add_metadata')
    if mapping != before:
        w.fail('metadata.add', 'the caller\'s mapping was modified')
    exp.generated_by = slot.ref.generated_by
    slot.ref = exp
    return 'add_metadata:ok'


def op_del_metadata(w, ev, slot):
    ref = slot.ref
    axis = ev.get('ax', 2) % 3
    axes = (0, 1) if axis == 2 else (axis,)
    allkeys = sorted({k for a in axes for d in ref.mdl(a) for k in d})
    if ev.get('all'):
        keys = None
    else:
        km = ev.get('keys', 1)
        keys = [k for j, k in enumerate(allkeys) if km >> j & 1]
        if ev.get('extra'):
            keys.append('no-such-key')
        if not keys:
            keys = allkeys[:1] or ['no-such-key']
    exp = ref.copy()
    for a in axes:
        if keys is None:
            exp.md[a] = None
        else:
            exp.md[a] = canon_md([{k: v for k, v in d.items()
                                   if k not in keys} for d in exp.mdl(a)])
    _mutating(w, slot)
    w.case('metadata.del', 'del_metadata', slot, ax=axis,
           allkeys=keys is None)
    name = ('observation', 'sample', 'whole')[axis]
    kform = ev.get('kform', 0) % 3      # keys as list / tuple / set
    karg = None if keys is None else [list(keys), tuple(keys),
                                      set(keys)][kform]
    if ev.get('pos'):
        status, res = _call(lambda: slot.real.del_metadata(karg, name))
    else:
        status, res = _call(lambda: slot.real.del_metadata(keys=karg,
                                                           axis=name))
    if status != 'ok':
        w.fail('metadata.del.raised', 'del_metadata raised %r' % res)
    w.expect_table(slot.real, exp, 'metadata.del', True, 'del_metadata')
    slot.ref = exp
    return 'del_metadata:ok'


# ============================================================== transforms ==
def _check_nz_calls(w, rec, ref, ax, oracle, opname):
    n = ref.n(ax)
    calls = rec.calls
    if rec.fault_at is not None and rec.fired:
        n = rec.fault_at + 1
    if len(calls) != n:
        w.fail(oracle, '%s: function invoked %d times for %d vectors'
               % (opname, len(calls), n))
    for i, (vals, id_, md) in enumerate(calls):
        if id_ != ref.ids[ax][i]:
            w.fail(oracle, '%s: invocation %d got id %r, expected %r'
                   % (opname, i, id_, ref.ids[ax][i]))
        v = ref.vec(ax, i)
        want = sorted(v[v != 0].tolist())
        if sorted(vals.tolist()) != want:
            w.fail(oracle, '%s: invocation %d (id %r) got values %r, the '
                   'vector\'s non-zero values are %r'
                   % (opname, i, id_, sorted(vals.tolist()), want),
                   finding='C13.transform_sees_stored_zero')
        if not _md_call_eq(md, ref.md_or_none(ax, i)):
            w.fail(oracle, '%s: invocation %d (id %r) got metadata %r, '
                   'expected %r' % (opname, i, id_, md,
                                    ref.md_or_none(ax, i)))


def _apply_vecwise(ref, ax, fn):
    """model transform: fn maps the non-zero values (in index order) of each
    vector to replacements; zero cells stay zero"""
    out = ref.copy()
    for i in range(ref.n(ax)):
        v = ref.vec(ax, i)
        nz = np.flatnonzero(v)
        if len(nz):
            new = np.asarray(fn(v[nz]), dtype=float)
            v2 = v.copy()
            v2[nz] = new
            if ax == 0:
                out.m[i, :] = v2
            else:
                out.m[:, i] = v2
    out.m = out.m + 0.0      # normalise -0.0
    return out


def op_transform(w, ev, slot):
    ref = slot.ref
    ax = ev.get('ax', 0) & 1
    fam, salt = ev.get('fam', 0), ev.get('salt', 0)
    fault = ev.get('fault')
    with np.errstate(all='ignore'):
        expected = _apply_vecwise(ref, ax,
                                  lambda x: CB.trans_rule(fam, salt, x))
    if not np.isfinite(expected.m).all():
        return 'skip:overflow'
    if fault is not None:
        w.stats['fault.F1.armed'] += 1

    def do(real, inplace):
        rec = Recorder(fault)
        f = CB.make_trans(fam, salt, rec)
        if ev.get('pos'):
            r = real.transform(f, AXNAME[ax], inplace)
        else:
            r = real.transform(f, axis=AXNAME[ax], inplace=inplace)

        def post():
            _check_nz_calls(w, rec, ref, ax, 'transform.args', 'transform')
        return r, post
    return _flagged(w, ev, slot, 'transform', do, expected,
                    'transform.result')


def _approx_cmp(w, oracle, rtol):
    def cmp(real_t, expected, what):
        msg = coherence(real_t, w.absent_id())
        if msg:
            w.fail(oracle + '.incoherent', what + ': ' + msg)
        s = Snap(real_t)
        shadow = expected.copy()
        if s.m.shape == shadow.m.shape:
            # (a few units in the last place of a subnormal result are a large
            # relative error: the absolute floor covers them)
            close = np.isclose(s.m, shadow.m, rtol=rtol, atol=1e-322)
            zero_ok = ((shadow.m == 0) == (s.m == 0)) | (
                (np.abs(shadow.m) <= 1e-322) & (np.abs(s.m) <= 1e-322))
            if close.all() and zero_ok.all():
                shadow.m = s.m.copy()
        d = diff_ref(s, shadow)
        if d:
            w.fail(oracle, what + ': ' + d)
    return cmp


def op_norm(w, ev, slot):
    ref = slot.ref
    ax = ev.get('ax', 0) & 1
    if (ref.m < 0).any():
        return 'skip:negative'
    with np.errstate(all='ignore'):
        sums = ref.m.sum(axis=1 - ax)
        if not np.isfinite(sums).all():
            return 'skip:overflow'
        expected = _apply_vecwise(ref, ax, lambda x: x / x.sum())
    if not np.isfinite(expected.m).all():
        return 'skip:overflow'

    def do(real, inplace):
        if ev.get('pos'):
            return real.norm(AXNAME[ax], inplace), None
        return real.norm(axis=AXNAME[ax], inplace=inplace), None
    return _flagged(w, ev, slot, 'norm', do, expected, 'norm.result',
                    approx=_approx_cmp(w, 'norm.result', 1e-12))


def op_pa(w, ev, slot):
    ref = slot.ref
    expected = ref.copy()
    expected.m = (ref.m != 0).astype(float)

    def do(real, inplace):
        if ev.get('pos'):
            return real.pa(inplace), None
        return real.pa(inplace=inplace), None
    return _flagged(w, ev, slot, 'pa', do, expected, 'pa.result')


RANK_METHODS = ['average', 'min', 'max', 'dense', 'ordinal']


def op_rankdata(w, ev, slot):
    ref = slot.ref
    ax = ev.get('ax', 0) & 1
    method = RANK_METHODS[ev.get('method', 0) % len(RANK_METHODS)]
    expected = _apply_vecwise(ref, ax, lambda x: rank_nonzero(x, method))

    def cmp_ordinal(real_t, exp, what):
        # ties: any assignment of the tied block's consecutive ranks
        msg = coherence(real_t, w.absent_id())
        if msg:
            w.fail('rank.result.incoherent', what + ': ' + msg)
        s = Snap(real_t)
        shadow = exp.copy()
        if s.m.shape == shadow.m.shape:
            ok = True
            for i in range(ref.n(ax)):
                v = ref.vec(ax, i)
                got = s.m[i, :] if ax == 0 else s.m[:, i]
                nz = np.flatnonzero(v)
                if (got[v == 0] != 0).any():
                    ok = False
                    break
                if sorted(got[nz].tolist()) != [float(k + 1)
                                                for k in range(len(nz))]:
                    ok = False
                    break
                for a in nz:
                    for b in nz:
                        if v[a] < v[b] and not got[a] < got[b]:
                            ok = False
            if ok:
                shadow.m = s.m.copy()
        d = diff_ref(s, shadow)
        if d:
            w.fail('rank.result', what + ': ' + d)

    def do(real, inplace):
        if ev.get('pos'):
            return real.rankdata(AXNAME[ax], inplace, method), None
        return real.rankdata(axis=AXNAME[ax], inplace=inplace,
                             method=method), None
    return _flagged(w, ev, slot, 'rankdata', do, expected, 'rank.result',
                    approx=cmp_ordinal if method == 'ordinal' else None)


# =============================================================== subsample ==
def op_subsample(w, ev, slot):
    ref = slot.ref
    ax = ev.get('ax', 1) & 1
    by_id = bool(ev.get('by_id', 0))
    wr = bool(ev.get('wr', 0)) and not by_id
    seed = ev.get('seed', 0)
    m = ref.m
    if (m < 0).any() or (m != np.floor(m)).any() or m.sum() > 5e6:
        return 'skip:not_counts'
    totals = m.sum(axis=1 - ax)
    nsel = ev.get('n', 1)
    if by_id:
        n = 1 + nsel % (ref.n(ax) + 1)
    else:
        cands = sorted({int(t) for t in totals if t > 0} | {1, 2, 3})
        n = cands[nsel % len(cands)]
        if ev.get('nadj'):
            n = max(1, n + (ev['nadj'] % 3) - 1)
    oax = 1 - ax
    ids = ref.ids

    def adopt(res):
        msg = coherence(res, w.absent_id())
        if msg:
            w.fail('subsample.result.incoherent', 'subsample result: ' + msg)
        s = Snap(res)
        orc = 'subsample.result'
        pos = [{i: k for k, i in enumerate(ids[a])} for a in (0, 1)]
        for a in (0, 1):
            extra = [i for i in s.ids[a] if i not in pos[a]]
            if extra:
                w.fail(orc, 'result has %s ids not in the input: %r'
                       % (AXNAME[a], extra))
            ks = [pos[a][i] for i in s.ids[a]]
            if ks != sorted(ks):
                w.fail(orc, '%s ids reordered: %r' % (AXNAME[a], s.ids[a]))
        # original values at the result's coordinates
        orig = m[np.ix_([pos[0][i] for i in s.ids[0]],
                        [pos[1][i] for i in s.ids[1]])]
        got = s.m
        if got.size and ((got < 0).any() or (got != np.floor(got)).any()):
            w.fail(orc, 'non-integer or negative entries: %r' % got.tolist())
        kept_ax = set(s.ids[ax])
        if by_id:
            want_n = min(n, ref.n(ax))
            if not np.array_equal(got, orig):
                w.fail(orc, 'by_id changed values')
            if len(s.ids[ax]) != want_n:
                w.fail(orc, 'by_id kept %d ids, expected min(n, N) = %d'
                       % (len(s.ids[ax]), want_n))
            # the other axis: exactly the ids non-zero within the kept block
            kept_block_pos = [pos[ax][i] for i in s.ids[ax]]
            blk = m[:, kept_block_pos] if ax == 1 else m[kept_block_pos, :]
            exp_o = [i for i in ids[oax]
                     if ((blk[pos[oax][i], :] if ax == 1
                          else blk[:, pos[oax][i]]) != 0).any()]
            if s.ids[oax] != exp_o:
                w.fail(orc, 'by_id: %s ids %r, expected %r (those non-zero '
                       'over the kept ids)' % (AXNAME[oax], s.ids[oax],
                                               exp_o))
        else:
            if not wr and (got > orig).any():
                w.fail(orc, 'an entry exceeds the original count: got %r '
                       'orig %r' % (got.tolist(), orig.tolist()))
            if wr and ((got != 0) & (orig == 0)).any():
                w.fail(orc, 'with replacement: a count appeared where the '
                       'original was zero: got %r orig %r'
                       % (got.tolist(), orig.tolist()))
            sums = got.sum(axis=1 - ax)
            if wr:
                want_ids = [i for i in ids[ax] if totals[pos[ax][i]] > 0]
            else:
                want_ids = [i for i in ids[ax] if totals[pos[ax][i]] >= n]
            if s.ids[ax] != want_ids:
                w.fail(orc, 'retained %s ids %r, expected %r (n=%d, totals '
                       '%r)' % (AXNAME[ax], s.ids[ax], want_ids, n,
                                totals.tolist()),
                       finding='C12.subsample_ignores_axis', trigger=ax == 0)
            if len(sums) and (sums != n).any():
                w.fail(orc, 'retained vectors sum to %r, not n=%d'
                       % (sums.tolist(), n),
                       finding='C12.subsample_ignores_axis', trigger=ax == 0)
            # other axis: exactly the ids left non-zero (checked on result):
            if got.size and (got.sum(axis=ax) == 0).any():
                w.fail(orc, 'an all-zero %s vector was kept' % AXNAME[oax])
        exp = ref_from_snap(s, ref)
        # metadata and type travel with the ids
        for a in (0, 1):
            want_md = None
            if ref.md[a] is not None:
                want_md = canon_md([ref.md[a][pos[a][i]] for i in s.ids[a]])
            if not md_equal(s.md[a], want_md):
                w.fail(orc, '%s metadata %r, expected %r'
                       % (AXNAME[a], s.md[a], want_md))
        if s.type != ref.type:
            w.fail(orc, 'type %r, expected %r' % (s.type, ref.type))
        # same seed -> same table
        res2 = slot.real.subsample(n, axis=AXNAME[ax], by_id=by_id,
                                   with_replacement=wr, seed=seed)
        d = diff_ref(Snap(res2), exp)
        if d:
            w.fail('subsample.seed', 'same seed gave a different table: ' + d)
        return exp

    def flag(b):
        # the documented "boolean" may arrive as a numpy bool or 0/1
        form = ev.get('flagform', 0) % 3
        return b if form == 0 else (np.bool_(b) if form == 1 else int(b))

    def do(real):
        if ev.get('gen') and not wr:
            # biom.util.generate_subsamples: the documented generator of
            # repeated draws.  It passes no seed, so the library asks numpy
            # for OS entropy; that call is the seam (the simulator supplies
            # the seed), nothing else is patched
            from biom.util import generate_subsamples
            orig_rng = np.random.default_rng

            def seeded(s=None, *a_, **k_):
                return orig_rng(seed if s is None else s, *a_, **k_)
            np.random.default_rng = seeded
            try:
                g = generate_subsamples(real, n, AXNAME[ax], by_id) \
                    if ev.get('pos') else generate_subsamples(
                        real, n, axis=AXNAME[ax], by_id=by_id)
                first = next(g)
                if ev['gen'] > 1:
                    next(g)         # a later draw; the first is the result
                g.close()
            finally:
                np.random.default_rng = orig_rng
            w.stats['subsample.via_generator'] += 1
            return first
        if ev.get('pos'):
            return real.subsample(n, AXNAME[ax], flag(by_id), flag(wr), seed)
        return real.subsample(n, axis=AXNAME[ax], by_id=flag(by_id),
                              with_replacement=flag(wr), seed=seed)
    return _newtable(w, ev, slot, 'subsample', do, None, 'subsample.result',
                     adopt=adopt)


OPS = {
    'filter': op_filter, 'remove_empty': op_remove_empty, 'head': op_head,
    'sort_order': op_sort_order, 'sort': op_sort, 'transpose': op_transpose,
    'copy': op_copy, 'align_to': op_align_to, 'update_ids': op_update_ids,
    'add_metadata': op_add_metadata, 'del_metadata': op_del_metadata,
    'transform': op_transform, 'norm': op_norm, 'pa': op_pa,
    'rankdata': op_rankdata, 'subsample': op_subsample,
}


# ================================================================= perturb ==
def ev_perturb(w, ev):
    """content-preserving representation changes through the public API"""
    slot = w.slot(ev.get('slot', 0))
    if slot is None:
        return 'skip:nopool'
    name = ev['name']
    w.stats['perturb.' + name] += 1
    t = slot.real
    ref = slot.ref
    dup = bool(ev.get('dup', 0))

    def install(new):
        w.expect_table(new, ref, 'perturb.' + name, True, name)
        if dup:
            w.add_slot(new, ref.copy(), ev.get('dst'), tags=('twin',))
        else:
            w.drop_readers(slot)
            slot.real = new

    if name == 'flip':
        ax = ev.get('ax', 0) & 1
        i = ref.ids[ax][ev.get('i', 0) % ref.n(ax)]
        w.touch_readers(slot)
        t.data(i, axis=AXNAME[ax])
    elif name == 'nnz':
        w.touch_readers(slot)
        t.nnz
    elif name == 'repr':
        w.touch_readers(slot)
        repr(t)
    elif name == 'eqself':
        w.touch_readers(slot)
        t == t
    elif name == 'iterall':
        ax = ev.get('ax', 0) & 1
        w.touch_readers(slot)
        for _ in t.iter(axis=AXNAME[ax]):
            pass
    elif name == 'h5':
        import h5py
        import datetime
        w.touch_readers(slot)
        w.file_counter += 1
        with h5py.File('perturb%d.h5' % w.file_counter, 'w', driver='core',
                       backing_store=False) as f:
            try:
                t.to_hdf5(f, 'perturb',
                          creation_date=datetime.datetime(2020, 1, 1))
            except Exception:  # noqa  (metadata outside the HDF5 grammar)
                w.stats['perturb.h5.refused'] += 1
    elif name == 'sortinv':
        ax = ev.get('ax', 1) & 1
        perm = _perm(ev.get('perm'), ref.n(ax))
        ids = ref.ids[ax]
        mid = t.sort_order([ids[i] for i in perm], axis=AXNAME[ax])
        install(mid.sort_order(list(ids), axis=AXNAME[ax]))
    elif name == 'groupmd':
        # group metadata added to this table only; every other live table
        # (the ones this one was derived from, or that were derived from it)
        # must keep its own (checked for all slots after every event)
        ax = ev.get('ax', 0) & 1
        k = ev.get('i', 0)
        t.add_group_metadata({'g%d' % (k % 3): ('txt', 'payload %d' % k)},
                             axis=AXNAME[ax])
        slot.group_md_baseline()
    elif name == 'tt':
        if ref.type is not None:
            return 'skip:typed'
        install(t.transpose().transpose())
    elif name == 'copy':
        install(t.copy())
    elif name == 'filterall':
        ax = ev.get('ax', 0) & 1
        install(t.filter(list(ref.ids[ax]), axis=AXNAME[ax], inplace=False))
    elif name == 'identity':
        ax = ev.get('ax', 0) & 1
        install(t.transform(lambda v, i, m: v, axis=AXNAME[ax],
                            inplace=False))
    elif name == 'rebuild':
        install(build_table(ref, ev.get('route', 7), ev.get('salt', 0),
                            ev.get('ids_as', 0)))
    elif name == 'fulldepth':
        # subsample at full depth: content-preserving only when every vector
        # on the axis has the same positive total
        ax = ev.get('ax', 1) & 1
        m = ref.m
        if (m < 0).any() or (m != np.floor(m)).any() or m.sum() > 5e6:
            return 'skip:not_counts'
        tot = m.sum(axis=1 - ax)
        if len(set(tot.tolist())) != 1 or tot[0] <= 0 or \
                (m.sum(axis=ax) == 0).any():
            return 'skip:unequal_totals'
        install(t.subsample(int(tot[0]), axis=AXNAME[ax],
                            seed=ev.get('seed', 0)))
    else:
        raise ValueError('unknown perturbation %r' % name)
    return 'perturb:' + name
