"""Storage probes: C01 (HDF5 round trip), C04 (BIOM 2.1 conformance),
C14 (subset on read).  DESIGN 6."""
import copy
import json
import os

import numpy as np

from .model import Ref, AXNAME, canon_md, plain
from .observe import Snap, diff_ref, md_equal, coherence
from .probes import probe
from .world import ref_from_snap
from . import store, spec_h5

RESERVED_LISTS = ('taxonomy', 'Taxonomy', 'KEGG_Pathways', 'collapsed_ids')
GEN_BY = ['sim', 'BIOM-Format 2.1.16-dev', 'a tool, v1.0 (β)', 'x/y z',
          'q "quoted" \\ back']
GEN_BY += [' padded ', 'tab\tin', '_x_']


def h5_grammar_ok(ref):
    """is the model's metadata inside the C01 quantifier's grammar?"""
    for ax in (0, 1):
        md = ref.md[ax]
        if md is None:
            continue
        keys = set(md[0])
        if not keys:
            return False
        for d in md:
            if set(d) != keys:
                return False
        for k in keys:
            if not k or '\x00' in k:
                return False
            vals = [d[k] for d in md]
            if all(isinstance(v, str) for v in vals):
                if any(v == '' or '\x00' in v for v in vals):
                    return False
                if k in RESERVED_LISTS:
                    return False        # flat text under a hierarchical name
                continue
            if all(isinstance(v, (int, float, bool)) and
                   not isinstance(v, str) for v in vals):
                continue
            if k in RESERVED_LISTS and all(
                    isinstance(v, list) and len(v) >= 1 and
                    all(isinstance(x, str) and x and '\x00' not in x
                        for x in v) for v in vals):
                if '/' in k:
                    return False
                continue
            return False
    for ax in (0, 1):
        if any('\x00' in i or i == '' for i in ref.ids[ax]):
            return False
    return True


def with_caller_zero(w, slot, code):
    """(table, model) where, sometimes, a copy of the slot's table (same
    layout) has had one stored entry overwritten with 0 by the caller through
    the public matrix_data attribute: an explicitly stored zero 'supplied by
    the caller' at write time"""
    from .world import Slot
    if code % 4 != 0:
        return slot
    t = slot.real.copy()
    m = t.matrix_data
    if m.getformat() not in ('csr', 'csc') or len(m.data) == 0:
        return slot
    k = (code // 4) % len(m.data)
    major = int(np.searchsorted(m.indptr, k, side='right') - 1)
    minor = int(m.indices[k])
    r, c = (major, minor) if m.getformat() == 'csr' else (minor, major)
    m.data[k] = 0.0
    ref = slot.ref.copy()
    ref.m[r, c] = 0.0
    w.stats['rare.caller_stored_zero'] += 1
    return Slot(t, ref, w.evidx)


def big_slot(w, slot, code):
    """sometimes: a table with one long axis (513..800 vectors), built from
    the slot's content by repeating its vectors cyclically (rotated, so the
    repeats differ) under fresh ids -- sizes at which block-wise writers and
    readers take their second block.  None when not chosen."""
    from .world import Slot
    from .build import build_table
    import copy as _copy
    if code % 8 != 5:
        return None
    ref = slot.ref
    ax = (code // 8) % 2
    n = 513 + (code // 16) % 288
    R = ref.n(ax)
    oax = 1 - ax
    rows = []
    ids, md = [], []
    src_md = ref.md[ax]
    for k in range(n):
        v = np.roll(ref.vec(ax, k % R), k // R)
        rows.append(v)
        ids.append('%s#%d' % (ref.ids[ax][k % R], k // R) if k >= R
                   else ref.ids[ax][k])
        if src_md is not None:
            md.append(_copy.deepcopy(src_md[k % R]))
    m = np.array(rows)
    if ax == 1:
        m = m.T
    allids = [None, None]
    allids[ax], allids[oax] = ids, list(ref.ids[oax])
    allmd = [None, None]
    allmd[ax] = md if src_md is not None else None
    allmd[oax] = _copy.deepcopy(ref.md[oax])
    big = Ref(allids[0], allids[1], m, allmd[0], allmd[1], ref.type,
              ref.table_id)
    if len(set(ids)) != len(ids):
        return None
    t = build_table(big, (code // 7) % 3, code % 100, 0)
    w.stats['rare.big_axis'] += 1
    return Slot(t, big, w.evidx)


def _write_h5(w, ev, slot, path, stamp=True):
    """write slot's table to path through a PRNG-chosen route; returns the
    dict of what was written (generated_by, creation_date, ...)"""
    import h5py
    import biom
    from biom.util import biom_open
    t, ref = slot.real, slot.ref
    a = ev.get('a', 0)
    compress = bool(a & 1)
    route = (a >> 1) % 3
    explicit_date = bool(a >> 3 & 1)
    gen_by = GEN_BY[ev.get('b', 0) % len(GEN_BY)]
    when = store.set_clock(ev.get('salt', 0))
    w.stats['clock.stamped'] += 1
    kw = {'generated_by': gen_by, 'compress': compress}
    if explicit_date:
        kw['creation_date'] = store.as_plain(when)
    if route == 0 and (a >> 4) & 1:
        # documented positional order: h5grp, generated_by, compress,
        # format_fs, creation_date
        with h5py.File(path, 'w') as f:
            t.to_hdf5(f, gen_by, compress, None, kw.get('creation_date'))
    elif route == 0:
        with h5py.File(path, 'w') as f:
            t.to_hdf5(f, **kw)
    elif route == 1:
        biom.save_table(t, path, **kw)
    else:
        with biom_open(path, 'w') as f:
            t.to_hdf5(f, **kw)
    w.stats['c01.write.route%d' % route] += 1
    w.stats['c01.write.compress' if compress else 'c01.write.plain'] += 1
    return {'generated_by': gen_by, 'date': store.as_plain(when),
            'compress': compress, 'route': route}


def _add_group_md(w, ev, slot):
    """group metadata is not part of the model (no table operation carries
    it); it is read off the real table right before writing"""
    if ev.get('c', 0) % 4 != 0:
        return
    for ax in (0, 1):
        if slot.real.group_metadata(AXNAME[ax]) is None and \
                (ev.get('c', 0) >> (2 + ax)) & 1:
            gm = {'tree': ('newick', '((a:0.1,b:0.2)\u00e9:0.3,c);'),
                  'relation': ('txt', 'x y\tz')}
            if (ev.get('c', 0) >> 5) & 1:
                gm = {'pair': ('txt', 'ab')}
            slot.real.add_group_metadata(dict(gm), axis=AXNAME[ax])
            slot.group_md_baseline()
            w.stats['c01.group_md_added'] += 1


def _group_md_text(t, loaded_form=False):
    """{axis: {name: text}} as it must read back, or False if the table holds
    group metadata in the loaded (text-only) form, which the writer cannot
    take; with loaded_form=True the texts of that form"""
    out = []
    for ax in (0, 1):
        gm = t.group_metadata(AXNAME[ax])
        if not gm:
            out.append(None)
            continue
        if not all(isinstance(v, tuple) and len(v) == 2 for v in gm.values()):
            if not loaded_form:
                return False
            out.append({k: (v if isinstance(v, str) else v[1])
                        for k, v in gm.items()})
            continue
        out.append({k: v[1] for k, v in gm.items()})
    return out


def _cmp_loaded(w, loaded, ref, meta, oracle, what, subset=False):
    msg = coherence(loaded, w.absent_id())
    if msg:
        w.fail(oracle + '.incoherent', '%s: %s' % (what, msg))
    s = Snap(loaded)
    exp = ref.copy()
    exp.type = ref.type
    d = diff_ref(s, exp)
    if d:
        w.fail(oracle, '%s: %s' % (what, d))
    # a category written with one scalar type reads back with that type
    for ax in (0, 1):
        if ref.md[ax] is None or s.md[ax] is None:
            continue
        for key in ref.md[ax][0]:
            kinds = {type(d_[key]) for d_ in ref.md[ax] if key in d_}
            if len(kinds) == 1 and kinds <= {int, float, bool, str}:
                got = {type(d_.get(key)) for d_ in s.md[ax]}
                if got != kinds:
                    w.fail(oracle, '%s: %s category %r written as %s reads '
                           'back as %s' % (what, AXNAME[ax], key,
                                           sorted(k.__name__ for k in kinds),
                                           sorted(k.__name__ for k in got)))
    if subset:
        return
    want_id = ref.table_id if ref.table_id else 'No Table ID'
    if loaded.table_id != want_id:
        w.fail(oracle, '%s: table id %r, expected %r'
               % (what, loaded.table_id, want_id))
    if loaded.generated_by != meta['generated_by']:
        w.fail(oracle, '%s: generated_by %r, written %r'
               % (what, loaded.generated_by, meta['generated_by']))
    got = loaded.create_date
    if not hasattr(got, 'year') or store.as_plain(got) != meta['date']:
        w.fail(oracle, '%s: creation date %r, written %r'
               % (what, got, meta['date']))
    for ax in (0, 1):
        gm = loaded.group_metadata(AXNAME[ax])
        want_txt = meta['group_md'][ax]
        got_txt = None if not gm else dict(gm)
        if got_txt != want_txt:
            # known: a two-character payload held in the loaded form is
            # taken for a (datatype, text) pair by the writer
            w.fail(oracle, '%s: %s group metadata %r, written %r'
                   % (what, AXNAME[ax], got_txt, want_txt),
                   finding='C01.reloaded_group_md_unwritable',
                   trigger=bool(meta.get('reloaded_gm')) and
                   bool(want_txt) and bool(got_txt) and
                   set(got_txt) == set(want_txt) and
                   all(got_txt[k] == want_txt[k] or
                       (len(want_txt[k]) == 2 and
                        got_txt[k] == want_txt[k][1])
                       for k in want_txt))


def _pathform(path, w):
    """a path as str or as pathlib.Path (both are paths to the loader)"""
    import pathlib
    w.file_counter += 1
    return pathlib.Path(path) if w.file_counter % 3 == 0 else path


@probe('c01_roundtrip')
def c01_roundtrip(w, ev, slot):
    import h5py
    import biom
    from biom import Table
    ref = slot.ref
    if not h5_grammar_ok(ref):
        return 'skip:md_grammar'
    _add_group_md(w, ev, slot)
    gmt = _group_md_text(slot.real)
    reloaded_gm = gmt is False
    if reloaded_gm:
        # history: loaded from a file that carries group metadata (the
        # loader keeps {name: text}), possibly changed in place, written
        # again
        gmt = _group_md_text(slot.real, loaded_form=True)
        w.stats['c01.reloaded_group_md'] += 1
    path = store.new_path(w, '.biom')
    w.case('c01.roundtrip', 'write', slot, a=ev.get('a', 0) % 16,
           regm=reloaded_gm)
    src = slot if reloaded_gm else \
        with_caller_zero(w, slot, ev.get('salt', 0) // 7)
    if src is slot and not reloaded_gm:
        src = big_slot(w, slot, ev.get('c', 0) >> 3) or slot
    if src is not slot:
        gmt = [None, None]
    try:
        meta = _write_h5(w, ev, src, path)
    except Exception as e:  # noqa
        w.fail('c01.write_raised', 'writing raised %r%s'
               % (e, ' (group metadata as loaded from HDF5: %r)' % (gmt,)
                  if reloaded_gm else ''),
               finding='C01.reloaded_group_md_unwritable',
               trigger=reloaded_gm and isinstance(e, ValueError) and
               'unpack' in str(e))
        if os.path.exists(path):
            os.unlink(path)
        return 'c01:known'
    meta['group_md'] = gmt
    meta['reloaded_gm'] = reloaded_gm
    w.expect_unchanged(slot, 'c01.source_changed', 'to_hdf5')
    ref = src.ref
    loaded_tables = []
    for route in range(4):
        what = ('load_table(path)', 'parse_table(h5py handle)',
                'Table.from_hdf5(handle)',
                'Table.from_hdf5(handle, observation axis)')[route]
        w.case('c01.roundtrip', what, slot)
        try:
            if route == 0:
                t2 = biom.load_table(_pathform(path, w))
            elif route == 1:
                with h5py.File(path, 'r') as f:
                    t2 = biom.parse_table(f)
            elif route == 2:
                with h5py.File(path, 'r') as f:
                    t2 = Table.from_hdf5(f)
            else:
                with h5py.File(path, 'r') as f:
                    t2 = Table.from_hdf5(f, axis='observation')
        except Exception as e:  # noqa
            w.fail('c01.load_raised', '%s raised %r' % (what, e),
                   finding='C01.nonascii_ids_unreadable',
                   trigger=any(ord(c) > 127 for ax in (0, 1)
                               for i in ref.ids[ax] for c in i))
            continue
        _cmp_loaded(w, t2, ref, meta, 'c01.roundtrip', what)
        loaded_tables.append(t2)
    # all but the table that may join the pool are the caller's to edit
    pick = ev.get('b', 0) % len(loaded_tables) if loaded_tables else 0
    from .probes_text import _scribble
    for k, t2 in enumerate(loaded_tables):
        if k != pick:
            _scribble(t2)
    os.unlink(path)
    if loaded_tables and (ev.get('c', 0) % 2 or (ev.get('c', 0) >> 6) & 1):
        t2 = loaded_tables[ev.get('b', 0) % len(loaded_tables)]
        # the reloaded table's own observation becomes its model (it was
        # just verified field by field; lists/tuples, int/float widths are
        # those of the file)
        nref = ref_from_snap(Snap(t2))
        w.add_slot(t2, nref, ev.get('dst'), tags=('reloaded',))
    return 'c01:ok'


def _raw_metadata_problems(path, ref):
    """per-id metadata datasets, read with raw h5py only: one entry per id,
    in axis order, holding that id's value"""
    import h5py
    probs = []
    with h5py.File(path, 'r') as f:
        for ax, axis in ((0, 'observation'), (1, 'sample')):
            md = ref.md[ax]
            grp = f[axis]['metadata']
            names = {k.replace('@@SLASH@@', '/'): k for k in grp}
            if md is None:
                if len(names):
                    probs.append('%s/metadata has datasets %r but the table '
                                 'has no %s metadata' % (axis, sorted(names),
                                                         axis))
                continue
            keys = sorted(md[0])
            if sorted(names) != keys:
                probs.append('%s/metadata datasets %r, table categories %r'
                             % (axis, sorted(names), keys))
                continue
            for k in keys:
                ds = grp[names[k]]
                raw = ds[()]
                want = [d[k] for d in md]
                if len(raw) != len(want):
                    probs.append('%s/metadata/%s has %d rows for %d ids'
                                 % (axis, k, len(raw), len(want)))
                    continue
                for i, (r, x) in enumerate(zip(raw, want)):
                    try:
                        if isinstance(x, list):
                            got = [spec_h5._text(v)
                                   for v in np.atleast_1d(r)]
                        elif isinstance(x, str):
                            got = spec_h5._text(r)
                    except UnicodeDecodeError:
                        probs.append('%s/metadata/%s row %d is not valid '
                                     'UTF-8: %r' % (axis, k, i, r))
                        break
                    if isinstance(x, list):
                        got = [v for v in got if v != '']
                        ok = got == x
                    elif isinstance(x, str):
                        ok = got == x
                    elif isinstance(x, bool):
                        ok = not isinstance(r, (bytes, str)) and \
                            bool(r) == x
                    else:
                        ok = not isinstance(r, (bytes, str)) and r == x
                    if not ok:
                        probs.append('%s/metadata/%s row %d holds %r, the id '
                                     '%r has %r' % (axis, k, i, r,
                                                    ref.ids[ax][i], x))
                        break
    return probs


def _prior_custom_formatter_write(w, target):
    import h5py
    from biom.util import H5PY_VLEN_STR
    ref = target.ref
    fs = {}
    for ax in (0, 1):
        md = ref.md[ax]
        if not md:
            continue
        for k in md[0]:
            if all(isinstance(d.get(k), str) for d in md):
                def shout(grp, header, md_, compression):
                    grp.create_dataset(
                        'metadata/%s' % header.replace('/', '@@SLASH@@'),
                        shape=(len(md_),), dtype=H5PY_VLEN_STR,
                        data=[('!' + m[header].upper()).encode('utf8')
                              for m in md_], compression=compression)
                fs[k] = shout
    if not fs:
        return
    w.file_counter += 1
    try:
        with h5py.File('prior%d.h5' % w.file_counter, 'w', driver='core',
                       backing_store=False) as f:
            target.real.to_hdf5(f, 'prior', format_fs=fs)
        w.stats['c04.prior_custom_formatter'] += 1
    except Exception:  # noqa
        w.stats['c04.prior_custom_formatter_refused'] += 1


@probe('c04_spec')
def c04_spec(w, ev, slot):
    import h5py
    ref = slot.ref
    if not h5_grammar_ok(ref):
        return 'skip:md_grammar'
    _add_group_md(w, ev, slot)
    if _group_md_text(slot.real) is False:
        return 'skip:loaded_group_md'
    target = with_caller_zero(w, slot, ev.get('salt', 0) // 7)
    mode = ev.get('c', 0) % 6
    if target is not slot:
        mode = 5
    tmp = None
    if mode in (0, 1):
        # empty-axis tables (0 x M, N x 0): the only profile generating them
        ax = mode
        t0 = slot.real.filter([], axis=AXNAME[ax], inplace=False)
        r0 = ref.take(ax, [])
        from .world import Slot
        tmp = Slot(t0, r0, w.evidx)
        target = tmp
        w.stats['c04.empty_axis'] += 1
    cbits = ev.get('c', 0)
    if (cbits >> 8) & 1 and tmp is None and target is slot:
        # history: the table written is one that was read from a BIOM 1.0
        # JSON document (biom convert's JSON -> HDF5 direction)
        import biom
        import io
        from .world import Slot
        try:
            tj = biom.parse_table(io.StringIO(slot.real.to_json('c04')))
        except Exception:  # noqa  (C02's business)
            tj = None
        if tj is not None and not diff_ref(Snap(tj), ref):
            target = Slot(tj, ref_from_snap(Snap(tj)), w.evidx)
            w.stats['c04.json_derived'] += 1
    if (cbits >> 7) & 1:
        # an earlier to_hdf5 call in this process used a caller-supplied
        # formatter for one category; later plain calls must not inherit it
        _prior_custom_formatter_write(w, target)
    path = store.new_path(w, '.biom')
    w.case('c04.spec', 'write', slot, a=ev.get('a', 0) % 16, mode=mode)
    try:
        if ev.get('b', 0) % 5 == 0 and tmp is None and ref.type is not None:
            from biom.cli.table_converter import _convert
            tcopy = target.real.copy()
            _convert(tcopy, path, to_hdf5=True, table_type=ref.type)
            w.stats['c04.via_convert'] += 1
        else:
            _write_h5(w, ev, target, path)
    except Exception as e:  # noqa
        w.fail('c04.write_raised', 'writing raised %r' % (e,))
    probs, dec = spec_h5.conformance(path, target.ref.m,
                                     target.ref.ids)
    if target.ref.m.size and (target.ref.m != 0).any():
        w.stats['c04.nonzero_tables'] += 1
    if not probs:
        probs += _raw_metadata_problems(path, target.ref)
    os.unlink(path)
    if probs:
        w.fail('c04.spec', 'file violates BIOM 2.1: ' + '; '.join(probs[:4]))
    # per-id metadata datasets in axis order (decoded with raw h5py above only
    # for row counts); ids in order were compared in conformance()
    return 'c04:ok'


# ===================================================================== C14 ==
def _write_ids_file(path, names, form):
    """the ids file of `biom subset-table`: one id per line (first
    tab-separated field), '#' lines are comments"""
    with open(path, 'w', encoding='utf8', newline='') as f:
        if form == 0:
            f.write('#a comment line\n')
            for i in names:
                f.write(i + '\tignored second column\n')
        elif form == 1:
            f.write('\n'.join(names))           # last line not terminated
        elif form == 2:
            f.write(''.join(i + '\r\n' for i in names))
        else:
            f.write('#ids\n' + '\n'.join(i + '\tx' for i in names))


def _drop_empty_other(exp, ax):
    oax = 1 - ax
    keep = [i for i in range(exp.n(oax)) if (exp.vec(oax, i) != 0).any()]
    return exp.take(oax, keep)


def _cmp_subset(w, got_table, exp, what, md=True, check_type=True):
    msg = coherence(got_table, w.absent_id())
    if msg:
        # the table read is what "read everything, then filter" gives also
        # in what its id lookups answer
        w.fail('c14.subset.incoherent', '%s: %s' % (what, msg))
    s = Snap(got_table)
    e = exp.copy()
    if not md:
        e.md = [None, None]
    if e.is_empty():
        if s.ids[0] != e.ids[0] or s.ids[1] != e.ids[1]:
            w.fail('c14.subset', '%s: ids %r, expected %r'
                   % (what, s.ids, e.ids))
        return
    d = diff_ref(s, e, check_type)
    if d:
        w.fail('c14.subset', '%s: %s' % (what, d))


@probe('c14_subset')
def c14_subset(w, ev, slot):
    import io
    import h5py
    import datetime
    import biom
    from biom import Table
    from biom.cli.table_subsetter import _subset_table
    ref = slot.ref
    t = slot.real
    a, b, c = ev.get('a', 0), ev.get('b', 0), ev.get('c', 0)
    ax = a & 1
    n = ref.n(ax)
    mask = (ev.get('salt', 1) % ((1 << n) - 1)) + 1 if n < 20 else 1
    sel = [i for i in range(n) if mask >> i & 1] or [0]
    order = sel[b % len(sel):] + sel[:b % len(sel)]
    if b & 16:
        order = order[::-1]
    names = [ref.ids[ax][i] for i in order]
    exp_take = ref.take(ax, sel)
    exp_drop = _drop_empty_other(exp_take, ax)
    unknown = (c % 5 == 0)
    when = datetime.datetime(2021, 3, 4, 5, 6, 7)
    out = []
    h5ok = h5_grammar_ok(ref) and _group_md_text(slot.real) is not False
    if h5ok:
        path = store.new_path(w, '.biom')
        with h5py.File(path, 'w') as f:
            t.to_hdf5(f, 'sim-subset', compress=bool(a & 2),
                      creation_date=when)
        try:
            w.case('c14.subset', 'from_hdf5', slot, ax=ax)
            try:
                with h5py.File(path, 'r') as f:
                    if (a >> 3) & 1:
                        got = Table.from_hdf5(f, list(names), AXNAME[ax])
                    else:
                        got = Table.from_hdf5(f, ids=[list(names),
                                                      tuple(names),
                                                      np.array(names)][
                            (a >> 4) % 3], axis=AXNAME[ax])
            except Exception as e:  # noqa
                w.fail('c14.subset_raised', 'from_hdf5(ids=%r, %s) raised %r'
                       % (names, AXNAME[ax], e),
                       finding='C14.numpy_in1d_removed')
            else:
                _cmp_subset(w, got, exp_drop, 'from_hdf5(ids=%r, %s)'
                            % (names, AXNAME[ax]))
            w.case('c14.subset', 'from_hdf5_nomd', slot, ax=ax)
            try:
                with h5py.File(path, 'r') as f:
                    got = Table.from_hdf5(f, ids=list(names), axis=AXNAME[ax],
                                          subset_with_metadata=False)
            except Exception as e:  # noqa
                w.fail('c14.subset_raised', 'from_hdf5(ids=%r, %s, '
                       'subset_with_metadata=False) raised %r'
                       % (names, AXNAME[ax], e),
                       finding='C14.nomd_subset_bytes_vs_str')
            else:
                _cmp_subset(w, got, exp_take, 'from_hdf5(ids=%r, %s, '
                            'subset_with_metadata=False)'
                            % (names, AXNAME[ax]), md=False, check_type=False)
            w.case('c14.subset', 'subset_table_hdf5', slot, ax=ax)
            try:
                got, fmt = _subset_table(path, None, AXNAME[ax], list(names))
            except Exception as e:  # noqa
                w.fail('c14.subset_raised', 'subset-table on HDF5 raised %r'
                       % (e,), finding='C14.numpy_in1d_removed')
            else:
                _cmp_subset(w, got, exp_drop, 'subset-table (HDF5, ids=%r)'
                            % (names,))
            # (the command loads the file and writes a new one: with group
            # metadata in the file that is the recorded finding
            # C01.reloaded_group_md_unwritable, not a subsetting matter)
            if (a >> 2) & 1 and not any(
                    t.group_metadata(axis=x) for x in AXNAME) and all(
                    i and '\t' not in i and '\n' not in i and '\r' not in i
                    and not i.startswith('#') and i == i.strip()
                    for i in names):
                from biom.cli.table_subsetter import subset_table as cmd
                idsf = store.new_path(w, '.ids.txt')
                outp = store.new_path(w, '.sub.biom')
                _write_ids_file(idsf, names, (a >> 6) % 4)
                w.case('c14.subset', 'subset_table_command', slot, ax=ax,
                       idsform=(a >> 6) % 4)
                try:
                    cmd.callback(path, None, AXNAME[ax], idsf, outp)
                    got = biom.load_table(outp)
                except Exception as e:  # noqa
                    w.fail('c14.subset_raised', 'biom subset-table (HDF5) '
                           'raised %r' % (e,))
                else:
                    _cmp_subset(w, got, exp_drop, 'biom subset-table -i '
                                '(ids file %r)' % (names,))
                finally:
                    for pth in (idsf, outp):
                        if os.path.exists(pth):
                            os.unlink(pth)
                w.stats['c14.cli_command'] += 1
            if unknown:
                w.stats['fault.F2.armed'] += 1
                bad = list(names) + [w.absent_like(ref.ids[ax], c // 5)]
                for label, fn in (
                        ('from_hdf5', lambda: Table.from_hdf5(
                            h5py.File(path, 'r'), ids=bad, axis=AXNAME[ax])),
                        ('subset-table (HDF5)', lambda: _subset_table(
                            path, None, AXNAME[ax], bad))):
                    try:
                        fn()
                        refused = False
                    except Exception:  # noqa
                        refused = True
                    w.stats['fault.F2.fired'] += 1
                    if not refused:
                        w.fail('c14.unknown_id', '%s accepted a request '
                               'naming an id that is not in the file' % label)
        finally:
            import gc
            gc.collect()
            if os.path.exists(path):
                os.unlink(path)
        out.append('h5')
    # ---- JSON
    text = t.to_json('sim-subset', creation_date=when)
    w.case('c14.subset', 'parse_table_json', slot, ax=ax)
    def idsarg():
        form = (b >> 5) % 4
        return [list(names), tuple(names), np.array(names),
                set(names)][form]
    for label, mk in (('parse_table(StringIO, ids)',
                       lambda: io.StringIO(text)),
                      ('parse_table(lines, ids)',
                       lambda: [text[:len(text) // 2], text[len(text) // 2:]])):
        try:
            got = biom.parse_table(mk(), ids=idsarg(), axis=AXNAME[ax])
        except Exception as e:  # noqa
            w.fail('c14.subset_raised', '%s raised %r' % (label, e))
        else:
            e2 = exp_drop.copy()
            e2.md = [canon_md(json.loads(json.dumps(m))) if m else None
                     for m in e2.md]
            _cmp_subset(w, got, e2, '%s ids=%r %s' % (label, names,
                                                     AXNAME[ax]))
    doc = json.loads(text)
    variants = [('as written', text),
                ('compact', json.dumps(doc, separators=(',', ':'))),
                ('spaced', json.dumps(doc)),
                ('indent=2', json.dumps(doc, indent=2))]
    if c % 3 == 0:
        # the document the command itself writes (it orders the members
        # differently): subsetting the output of an earlier run that kept
        # every id
        try:
            g0, _ = _subset_table(None, text, AXNAME[ax], list(ref.ids[ax]))
            variants.append(('output of a previous subset-table run',
                             ''.join(g0)))
        except Exception as e:  # noqa
            w.fail('c14.subset_raised', 'subset-table keeping every id '
                   'raised %r' % (e,))
    results = []
    for label, jtext in variants:
        w.case('c14.subset', 'subset_table_json', slot, ax=ax, ser=label)
        try:
            gen, fmt = _subset_table(None, jtext, AXNAME[ax], list(names))
            pieces = []
            for piece in gen:          # a lazy generator: stepped to the end
                pieces.append(piece)
            sub = json.loads(''.join(pieces))
            got = Table.from_json(sub)
        except Exception as e:  # noqa
            w.fail('c14.subset_raised', 'subset-table on JSON (%s) raised %r'
                   % (label, e), finding='C14.json_slicer_whitespace',
                   trigger=label in ('spaced', 'indent=2'))
            continue
        e2 = exp_take.copy()
        e2.md = [canon_md(json.loads(json.dumps(m))) if m else None
                 for m in e2.md]
        _cmp_subset(w, got, e2, 'subset-table (JSON %s, ids=%r %s)'
                    % (label, names, AXNAME[ax]))
        results.append(Snap(got).digest())
    if len(set(results)) > 1:
        w.fail('c14.serialisation', 'subset-table gives different tables for '
               'different serialisations of the same JSON document')
    if (a >> 3) & 1 and all(
            i and '\t' not in i and '\n' not in i and '\r' not in i
            and not i.startswith('#') and i == i.strip() for i in names):
        # the click command itself on the JSON document: ids file in, JSON
        # document out
        from biom.cli.table_subsetter import subset_table as cmd
        jpath = store.new_path(w, '.json.biom')
        idsf = store.new_path(w, '.ids.txt')
        outp = store.new_path(w, '.sub.json')
        with open(jpath, 'w', encoding='utf8') as f:
            f.write(text)
        _write_ids_file(idsf, names, (a >> 6) % 4)
        w.case('c14.subset', 'subset_table_command_json', slot, ax=ax,
               idsform=(a >> 6) % 4)
        try:
            cmd.callback(None, jpath, AXNAME[ax], idsf, outp)
            with open(outp, encoding='utf8') as f:
                got = Table.from_json(json.load(f))
        except Exception as e:  # noqa
            w.fail('c14.subset_raised', 'biom subset-table -j raised %r'
                   % (e,))
        else:
            e2 = exp_take.copy()
            e2.md = [canon_md(json.loads(json.dumps(m))) if m else None
                     for m in e2.md]
            _cmp_subset(w, got, e2, 'biom subset-table -j (ids file %r)'
                        % (names,))
        finally:
            for pth in (jpath, idsf, outp):
                if os.path.exists(pth):
                    os.unlink(pth)
        w.stats['c14.cli_command_json'] += 1
    if unknown:
        w.stats['fault.F2.armed'] += 1
        try:
            gen, fmt = _subset_table(None, text, AXNAME[ax],
                                     list(names) +
                                     [w.absent_like(ref.ids[ax], c // 5)])
            list(gen)
            refused = False
        except Exception:  # noqa
            refused = True
        w.stats['fault.F2.fired'] += 1
        if not refused:
            w.fail('c14.unknown_id', 'subset-table (JSON) accepted a request '
                   'naming an id that is not in the file')
    w.expect_unchanged(slot, 'c14.source_changed', 'writing for subset')
    out.append('json')
    return 'c14:' + '+'.join(out)
