"""The simulated 'table world' (DESIGN 3): pool of live tables with their
reference models, suspended reader tasks, event execution, always-on
invariants, event-log digest."""
import hashlib
import json
from collections import Counter

import numpy as np

from . import values as V
from .model import Ref, AXNAME, ModelError, canon_md
from .observe import Snap, diff_ref, coherence, layout_class, md_equal
from .callbacks import InjectedFault

MAX_POOL = 6
MAX_READERS = 4


class Violation(Exception):
    def __init__(self, oracle, detail, finding=None):
        Exception.__init__(self, '%s: %s' % (oracle, detail))
        self.oracle = oracle
        self.detail = detail
        self.finding = finding


def group_md_of(t):
    """plain deep copy of a table's group metadata, both axes"""
    out = []
    for name in ('observation', 'sample'):
        gm = t.group_metadata(name)
        out.append(None if not gm else
                   {str(k): (tuple(v) if isinstance(v, (tuple, list)) else v)
                    for k, v in gm.items()})
    return out


class Slot:
    __slots__ = ('real', 'ref', 'born', 'tags', 'gm')

    def __init__(self, real, ref, born, tags=()):
        self.real = real
        self.ref = ref
        self.born = born
        self.tags = set(tags)
        self.gm = None

    def group_md_baseline(self):
        """group metadata is not modelled per operation (no operation is
        documented to carry or drop it): whatever a table has when it enters
        the pool is its baseline, and only add_group_metadata on that very
        table may change it"""
        self.gm = (id(self.real), group_md_of(self.real))

    def group_md_changed(self):
        if self.gm is None or self.gm[0] != id(self.real):
            self.group_md_baseline()
            return None
        now = group_md_of(self.real)
        if now != self.gm[1]:
            return 'group metadata %r, was %r' % (now, self.gm[1])
        return None


class Reader:
    __slots__ = ('slot', 'gen', 'expected', 'cursor', 'kind', 'cmp',
                 'touched', 'oracle')

    def __init__(self, slot, gen, expected, kind, cmp, oracle):
        self.slot = slot
        self.gen = gen
        self.expected = expected
        self.cursor = 0
        self.kind = kind
        self.cmp = cmp
        self.touched = 0
        self.oracle = oracle


def ref_from_snap(snap, like=None):
    r = Ref(snap.ids[0], snap.ids[1], snap.m.copy(), snap.md[0], snap.md[1],
            snap.type, snap.table_id)
    if like is not None:
        r.generated_by = like.generated_by
        r.create_date = like.create_date
    return r


class World:
    def __init__(self, cfg, known=None):
        self.cfg = cfg
        self.vfam = cfg.get('vfam', 'exact')
        self.alpha = cfg.get('alpha', 'ascii')
        self.ctrl_md = bool(cfg.get('ctrl_md', 0))
        self.pool = []
        self.readers = []
        self.stats = Counter()
        self.cases = set()
        self.evidx = -1
        self.hash = hashlib.sha256()
        self.known = known or {}
        self.known_seen = Counter()
        self.probe_count = Counter()
        self.scratch = cfg.get('scratch')
        self.file_counter = 0
        self.clock = None
        self.last_outcome = ''
        self.last_event = None
        self.owners = None
        self.trace = []          # short human-readable outcome per event
        from . import store
        store.install_clock()

    # ------------------------------------------------------------ helpers --
    def fail(self, oracle, detail, finding=None, trigger=True):
        """Report an oracle failure.  If `finding` names a listed known
        finding whose trigger holds, record it and return (caller then lets
        the model follow the as-is behaviour); otherwise raise Violation."""
        if finding is not None and trigger and finding in self.known:
            self.known_seen[finding] += 1
            return True
        raise Violation(oracle, detail, finding)

    def slot(self, k):
        if not self.pool:
            return None
        return self.pool[k % len(self.pool)]

    def add_slot(self, real, ref, dst=None, tags=()):
        s = Slot(real, ref, self.evidx, tags)
        if len(self.pool) < self.cfg.get('pool', MAX_POOL):
            self.pool.append(s)
        else:
            victim = self.pool[(dst or 0) % len(self.pool)]
            self.drop_readers(victim)
            self.pool[(dst or 0) % len(self.pool)] = s
        return s

    def retire(self, slot):
        self.drop_readers(slot)
        if slot in self.pool:
            self.pool.remove(slot)
        self.stats['slot.retired'] += 1

    def drop_readers(self, slot):
        before = len(self.readers)
        self.readers = [r for r in self.readers if r.slot is not slot]
        self.stats['reader.dropped'] += before - len(self.readers)

    def touch_readers(self, slot):
        for r in self.readers:
            if r.slot is slot:
                r.touched += 1

    def absent_id(self):
        return 'ABSENT§%d' % (self.evidx % 7)

    def absent_like(self, ids, variant):
        """an id that is NOT in ids but resembles one that is (a longer id
        with an existing id as prefix, a prefix, a case variant, ...)"""
        ids = list(ids)
        v = variant % 5
        cand = None
        if ids:
            base = ids[(variant // 5) % len(ids)]
            longest = max(ids, key=len)
            if v == 1:
                cand = longest + 'x'
            elif v == 2:
                cand = base + '0'
            elif v == 3:
                cand = base[:-1]
            elif v == 4:
                cand = base.swapcase()
        if not cand or cand in ids or cand != cand.strip():
            cand = self.absent_id()
        while cand in ids:
            cand += '?'
        return cand

    def case(self, oracle, op, slot=None, **kw):
        key = [oracle, op]
        if slot is not None:
            try:
                key.append(layout_class(slot.real))
            except Exception:  # noqa
                key.append('?')
            sh = slot.ref.shape
            key.append((min(sh[0], 3), min(sh[1], 3)))
            key.append((slot.ref.md[0] is not None, slot.ref.md[1] is not None))
            key.append(any(r.slot is slot for r in self.readers))
        for k in sorted(kw):
            key.append((k, kw[k]))
        self.cases.add(repr(key))
        self.probe_count[oracle] += 1

    # ------------------------------------------------- table comparisons --
    def expect_table(self, real, ref, oracle, check_type=True, what=''):
        msg = coherence(real, self.absent_id())
        if msg:
            # owned by the operation's property and (suffix rule) by C05
            self.fail(oracle + '.incoherent', '%s: %s' % (what, msg))
        d = diff_ref(Snap(real), ref, check_type)
        if d:
            self.fail(oracle, (what + ': ' if what else '') + d)

    def expect_unchanged(self, slot, oracle, what=''):
        d = diff_ref(Snap(slot.real), slot.ref)
        if d:
            self.fail(oracle, (what + ': ' if what else '') + d)

    def adopt(self, slot):
        """narrow relaxation: the model takes over the observed content of
        this one slot (after an aborted in-place call)"""
        msg = coherence(slot.real, self.absent_id())
        if msg:
            self.fail('aborted_inplace.incoherent', 'after aborted in-place call: ' + msg)
        slot.ref = ref_from_snap(Snap(slot.real), slot.ref)
        self.stats['model.adopted'] += 1

    def check_all(self):
        """always-on invariants over every slot (DESIGN 3.3)"""
        probe = self.absent_id()
        last = self.last_event or {}
        tag = '%s:%s' % (last.get('k', '?'), last.get('name', ''))
        failures = []
        for i, s in enumerate(self.pool):
            msg = coherence(s.real, probe)
            if msg:
                failures.append(('coherence', 'slot %d after %s: %s'
                                 % (i, tag, msg)))
            d = diff_ref(Snap(s.real), s.ref)
            if d:
                failures.append(('bystander.changed', 'slot %d after %s: %s'
                                 % (i, tag, d)))
                if last.get('name') in ('add_metadata', 'del_metadata'):
                    # a metadata update on one table showing in another one:
                    # also "exactly the named ids and keys" of C18
                    failures.append(('metadata.other_table_changed',
                                     'slot %d after %s: %s' % (i, tag, d)))
            g = s.group_md_changed()
            if g:
                failures.append(('bystander.group_metadata',
                                 'slot %d after %s: %s' % (i, tag, g)))
            self.case('bystander.changed', tag, s, pool=len(self.pool))
            self.probe_count['coherence'] += 1
        if failures:
            # several invariants can break at once (a table another one was
            # derived from is both changed and incoherent): report the one
            # the checked property owns
            pick = failures[0]
            if self.owners is not None:
                from .runner import owns
                for f in failures:
                    if owns(self.owners, f[0]):
                        pick = f
                        break
            self.fail(pick[0], pick[1])
        self.check_errprofile()
        # every property's domain is finite values: a table that overflowed
        # to inf/nan through arithmetic leaves the simulation
        for s in list(self.pool):
            if not np.isfinite(s.ref.m).all():
                self.stats['slot.nonfinite_retired'] += 1
                self.retire(s)

    def resync(self):
        """After an oracle failure that the checked property does not own:
        take the real state as the new starting point (every coherent table's
        observation becomes its model, incoherent ones and all suspended
        readers leave, the current error profile becomes the expected one) so
        that the rest of the schedule still runs and the property's own
        oracles are still evaluated from a consistent state."""
        from biom.err import geterr
        probe = self.absent_id()
        for s in list(self.pool):
            try:
                bad = coherence(s.real, probe)
                snap = None if bad else Snap(s.real)
            except Exception:  # noqa
                snap = None
            if snap is None or not np.isfinite(snap.m).all():
                self.retire(s)
                continue
            if diff_ref(snap, s.ref):
                # this table is not what its model says: the expectations of
                # readers suspended over it are void too
                self.drop_readers(s)
                s.ref = ref_from_snap(snap, s.ref)
            s.group_md_baseline()
        self.cfg['_errprofile'] = dict(geterr())
        self.stats['resync'] += 1

    def check_errprofile(self):
        from biom.err import geterr
        want = self.cfg.get('_errprofile') or DEFAULT_PROFILE
        got = geterr()
        if got != want:
            self.fail('errprofile.leak', 'profile %r, expected %r' % (got, want))

    # ----------------------------------------------------------- digest --
    def digest_event(self, ev, outcome):
        h = self.hash
        h.update(json.dumps(ev, sort_keys=True).encode('utf8'))
        h.update(str(outcome).encode('utf8', 'surrogatepass'))
        for s in self.pool:
            h.update(Snap(s.real).digest().encode('ascii'))
        h.update(b'|%d|%d' % (len(self.pool), len(self.readers)))

    def digest(self):
        return self.hash.hexdigest()

    # ---------------------------------------------------------- execute --
    def execute(self, ev):
        from . import ops, ops2, reads, probes  # noqa
        self.evidx += 1
        self.last_event = ev
        k = ev['k']
        self.stats['event.' + k] += 1
        if k == 'new':
            out = ops.ev_new(self, ev)
        elif k == 'op':
            out = ops.ev_op(self, ev)
        elif k == 'read':
            out = reads.ev_read(self, ev)
        elif k == 'spawn':
            out = reads.ev_spawn(self, ev)
        elif k == 'step':
            out = reads.ev_step(self, ev)
        elif k == 'drop':
            out = reads.ev_drop(self, ev)
        elif k == 'perturb':
            out = ops.ev_perturb(self, ev)
        elif k == 'probe':
            out = probes.ev_probe(self, ev)
        else:
            raise ValueError('unknown event kind %r' % k)
        self.last_outcome = out
        self.trace.append(out)
        self.check_all()
        self.digest_event(ev, out)
        return out

    def close(self):
        for r in self.readers:
            try:
                r.gen.close()
            except Exception:  # noqa
                pass
        self.readers = []
        self.pool = []


DEFAULT_PROFILE = {'empty': 'ignore', 'obssize': 'raise', 'sampsize': 'raise',
                   'obsdup': 'raise', 'sampdup': 'raise',
                   'obsmdsize': 'raise', 'sampmdsize': 'raise'}


def reset_process_state():
    """per-run reset of process-global library state (DESIGN 5.1)"""
    import biom.err as err
    err.seterr(**DEFAULT_PROFILE)
    for kind in DEFAULT_PROFILE:
        err.seterrcall(kind, _noop)
    import warnings
    warnings.resetwarnings()
    warnings.simplefilter('ignore')


def _noop(x):
    return None
