"""Independent BIOM 2.1 decoder / conformance checker using raw h5py only,
written against doc/documentation/format_versions/biom-2.1.rst.  Shares no
code with biom (C04, and the classifier side of C15)."""
import numpy as np
import h5py

REQ_ATTRS = ['id', 'type', 'format-url', 'format-version', 'generated-by',
             'creation-date', 'shape', 'nnz']
REQ_GROUPS = ['observation', 'observation/matrix', 'observation/metadata',
              'observation/group-metadata', 'sample', 'sample/matrix',
              'sample/metadata', 'sample/group-metadata']
REQ_DATASETS = ['observation/ids', 'observation/matrix/data',
                'observation/matrix/indices', 'observation/matrix/indptr',
                'sample/ids', 'sample/matrix/data', 'sample/matrix/indices',
                'sample/matrix/indptr']


def _text(v):
    if isinstance(v, bytes):
        return v.decode('utf8')
    if isinstance(v, np.ndarray) and v.shape == ():
        return _text(v[()])
    return v


def _is_text(v):
    return isinstance(v, (str, bytes, np.str_, np.bytes_))


def _is_int(v):
    return isinstance(v, (int, np.integer)) and not isinstance(v, (bool,
                                                                    np.bool_))


def check_structure(f):
    """list of problems with required attributes / groups / datasets"""
    probs = []
    for a in REQ_ATTRS:
        if a not in f.attrs:
            probs.append('missing attribute %r' % a)
    for g in REQ_GROUPS:
        if g not in f or not isinstance(f[g], h5py.Group):
            probs.append('missing group %r' % g)
    for d in REQ_DATASETS:
        if d not in f or not isinstance(f[d], h5py.Dataset):
            probs.append('missing dataset %r' % d)
    return probs


def decode_axis_matrix(f, axis, shape):
    """decode one of the two matrix copies to dense + list of problems"""
    probs = []
    g = f[axis]['matrix']
    data = g['data'][()]
    indices = g['indices'][()]
    indptr = g['indptr'][()]
    n_major = shape[0] if axis == 'observation' else shape[1]
    n_minor = shape[1] if axis == 'observation' else shape[0]
    if g['data'].dtype != np.float64:
        probs.append('%s/matrix/data dtype %s, spec says float64'
                     % (axis, g['data'].dtype))
    if g['indices'].dtype != np.int32:
        probs.append('%s/matrix/indices dtype %s, spec says int32'
                     % (axis, g['indices'].dtype))
    if g['indptr'].dtype != np.int32:
        probs.append('%s/matrix/indptr dtype %s, spec says int32'
                     % (axis, g['indptr'].dtype))
    if len(indptr) != n_major + 1:
        probs.append('%s/matrix/indptr has %d entries for %d vectors'
                     % (axis, len(indptr), n_major))
        return None, probs
    if len(indptr) and indptr[0] != 0:
        probs.append('%s/matrix/indptr does not start at 0' % axis)
    if (np.diff(indptr.astype(np.int64)) < 0).any():
        probs.append('%s/matrix/indptr is not monotone' % axis)
        return None, probs
    if len(data) != len(indices):
        probs.append('%s/matrix data/indices lengths differ' % axis)
        return None, probs
    if len(indptr) and indptr[-1] != len(data):
        probs.append('%s/matrix/indptr ends at %d, %d entries stored'
                     % (axis, indptr[-1], len(data)))
        return None, probs
    if len(indices) and (indices.min() < 0 or indices.max() >= n_minor):
        probs.append('%s/matrix/indices out of range [0, %d)'
                     % (axis, n_minor))
        return None, probs
    if len(data) and (np.asarray(data, dtype=float) == 0).any():
        probs.append('%s/matrix/data holds an explicitly stored zero' % axis)
    dense = np.zeros((n_major, n_minor))
    for i in range(n_major):
        s, e = int(indptr[i]), int(indptr[i + 1])
        seg = indices[s:e]
        if len(set(seg.tolist())) != len(seg):
            probs.append('%s/matrix vector %d has duplicate indices'
                         % (axis, i))
        for j, v in zip(seg, data[s:e]):
            dense[i, j] += float(v)
    if axis == 'sample':
        dense = dense.T
    return dense, probs


def decode_ids(f, axis):
    raw = f[axis]['ids'][()]
    return [_text(x) for x in raw]


def conformance(path_or_file, model_dense=None, model_ids=None):
    """full C04 check of a written file.  Returns (problems, decoded) where
    decoded = {'shape', 'nnz', 'ids', 'dense'} when decodable."""
    close = False
    f = path_or_file
    if not isinstance(f, (h5py.File, h5py.Group)):
        f = h5py.File(path_or_file, 'r')
        close = True
    try:
        probs = check_structure(f)
        if probs:
            return probs, None
        a = f.attrs
        for name in ('id', 'type', 'format-url', 'generated-by',
                     'creation-date'):
            if not _is_text(a[name]):
                probs.append('attribute %r is %r, spec says string'
                             % (name, type(a[name])))
        fv = np.asarray(a['format-version'])
        if fv.shape != (2,) or not np.issubdtype(fv.dtype, np.integer):
            probs.append('format-version %r is not a pair of ints' % (fv,))
        elif tuple(int(x) for x in fv) != (2, 1):
            probs.append('format-version %r, expected (2, 1)' % (fv,))
        sh = np.asarray(a['shape'])
        if sh.shape != (2,) or not np.issubdtype(sh.dtype, np.integer):
            probs.append('shape %r is not a pair of ints' % (sh,))
            return probs, None
        shape = (int(sh[0]), int(sh[1]))
        if not _is_int(a['nnz']):
            probs.append('nnz %r is not an int' % (a['nnz'],))
        try:
            import datetime
            datetime.datetime.fromisoformat(_text(a['creation-date']))
        except Exception:  # noqa
            probs.append('creation-date %r is not ISO 8601'
                         % (a['creation-date'],))
        ids = {}
        for axis, n in (('observation', shape[0]), ('sample', shape[1])):
            ids[axis] = decode_ids(f, axis)
            if len(ids[axis]) != n:
                probs.append('%s/ids has %d entries, shape says %d'
                             % (axis, len(ids[axis]), n))
            for cat, ds in f[axis]['metadata'].items():
                if ds.shape[0] != n:
                    probs.append('%s/metadata/%s has %d rows for %d ids'
                                 % (axis, cat, ds.shape[0], n))
            for cat, ds in f[axis]['group-metadata'].items():
                if 'data_type' not in ds.attrs:
                    probs.append('%s/group-metadata/%s lacks data_type'
                                 % (axis, cat))
                elif not _is_text(ds.attrs['data_type']):
                    probs.append('%s/group-metadata/%s data_type is not a '
                                 'string' % (axis, cat))
        dense = {}
        for axis in ('observation', 'sample'):
            d, p = decode_axis_matrix(f, axis, shape)
            probs += p
            dense[axis] = d
        if dense['observation'] is not None and dense['sample'] is not None:
            if not np.array_equal(dense['observation'], dense['sample']):
                probs.append('the observation (CSR) and sample (CSC) copies '
                             'decode to different matrices')
            true_nnz = int((dense['observation'] != 0).sum())
            if _is_int(a['nnz']) and int(a['nnz']) != true_nnz:
                probs.append('nnz attribute %d, matrix has %d non-zero cells'
                             % (int(a['nnz']), true_nnz))
            for axis in ('observation', 'sample'):
                stored = len(f[axis]['matrix']['data'])
                if _is_int(a['nnz']) and stored != int(a['nnz']):
                    probs.append('%s/matrix/data has %d entries, nnz says %d'
                                 % (axis, stored, int(a['nnz'])))
        decoded = {'shape': shape, 'ids': ids, 'dense': dense['observation'],
                   'nnz': a['nnz']}
        if model_dense is not None and dense['observation'] is not None:
            if dense['observation'].shape != model_dense.shape or \
                    not np.array_equal(dense['observation'], model_dense):
                probs.append('decoded matrix differs from the table\'s matrix')
            if shape != model_dense.shape:
                probs.append('shape attribute %r, table is %r'
                             % (shape, model_dense.shape))
        if model_ids is not None:
            if ids['observation'] != model_ids[0]:
                probs.append('observation/ids %r, table has %r'
                             % (ids['observation'], model_ids[0]))
            if ids['sample'] != model_ids[1]:
                probs.append('sample/ids %r, table has %r'
                             % (ids['sample'], model_ids[1]))
        return probs, decoded
    finally:
        if close:
            f.close()
