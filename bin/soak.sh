#!/bin/bash
# soak: run every check at the given tier under several VERIF_SEED bases; any
# VIOLATION / HARNESS line on the unchanged tree is a false alarm to hunt down.
# Full output of every non-zero exit is kept under soak_logs/.
cd "$(dirname "$0")/.."
tier=${1:-quick}; shift
seeds=${@:-"11 12 13"}
mkdir -p soak_logs
for sd in $seeds; do
 for p in C01 C02 C03 C04 C05 C06 C07 C08 C09 C10 C11 C12 C13 C14 C15 C16 C18 C19 C20; do
  out=$(VERIF_SEED=$sd timeout 3000 /venv/bin/python bin/check.py $p --tier $tier --no-evidence 2>&1)
  code=$?
  echo "seed=$sd $p exit=$code $(echo "$out" | grep -v KNOWN | grep "^OK\|VIOLATION" | tail -1 | cut -c1-160)"
  echo "$out" | grep "signal:" | cut -c1-400
  if [ $code -ne 0 ]; then echo "$out" > soak_logs/$tier-$sd-$p.log; cp replays/$p-${sd}00*.json soak_logs/ 2>/dev/null; echo "$out" | grep "VIOLATION\|oracle=\|HARNESS" | head -6 | cut -c1-400; fi
 done
done
