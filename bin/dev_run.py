#!/venv/bin/python
"""dev helper: run seeds in-process and print violations (not a registered check)"""
import os, sys, json, random, collections
os.environ.setdefault('PYTHONHASHSEED', '0')
sys.path.insert(0, os.environ.get('VERIF_REPO', '/repo'))
sys.path.insert(0, os.path.dirname(os.path.dirname(os.path.abspath(__file__))))
from sim import runner
from sim.profiles import PROFILES, OWNERS
import sim.ops2, sim.probes  # noqa
prop = sys.argv[1]
a, b = int(sys.argv[2]), int(sys.argv[3])
tier = sys.argv[4] if len(sys.argv) > 4 else 'quick'
known = runner.load_known()
seen = collections.Counter()
first = {}
import tempfile
scratch = tempfile.mkdtemp(prefix='verifdev-')
os.chdir(scratch)
nev = 0
for seed in range(a, b):
    res = runner.run_seed(seed, PROFILES[prop], tier, known, scratch)
    nev += res['n_events']
    v = res['viol']
    if v:
        key = v['oracle'] + ' :: ' + v['detail'][:90]
        seen[v['oracle']] += 1
        if v['oracle'] not in first:
            first[v['oracle']] = (seed, v, res)
print('events', nev)
for k, c in seen.most_common():
    seed, v, res = first[k]
    print('=' * 80)
    print(c, k, 'seed', seed, 'event', v['event'], 'owned' if runner.owns(OWNERS[prop], k) else 'signal')
    print(v['detail'][:1500])
    if os.environ.get('SHRINK', '1') == '1':
        small, sv, n = runner.shrink(res['events'], res['cfg'], known, v, budget_s=20)
        print('shrunk to', len(small), 'events in', n, 'runs; cfg vfam/alpha', res['cfg']['vfam'], res['cfg']['alpha'])
        for e in small:
            print('   ', json.dumps(e, sort_keys=True))
        print('  ->', sv['detail'][:600])
import shutil; shutil.rmtree(scratch, ignore_errors=True)
