#!/venv/bin/python
"""replay.py <replay.json>: re-execute a recorded event list in a fresh
interpreter.  Exit 1 and a VIOLATION line if the recorded violation
reproduces (same oracle, same event-log digest), 0 if it does not occur,
2 on harness error."""
import json
import os
import sys

sys.path.insert(0, os.path.dirname(os.path.abspath(__file__)))
import check  # noqa  (re-exec with the pinned environment)

VERIF = os.path.dirname(os.path.dirname(os.path.abspath(__file__)))


def main():
    check.pin_environment()
    path = sys.argv[1]
    repo = os.environ.get('VERIF_REPO', '/repo')
    sys.path.insert(0, repo)
    sys.path.insert(0, VERIF)
    doc = json.load(open(path))
    import tempfile
    import shutil
    scratch = tempfile.mkdtemp(prefix='verif-replay-')
    os.chdir(scratch)
    try:
        if doc.get('engine') == 'c20':
            from sim import c20
            v, dig = c20.replay(doc)
        else:
            from sim import runner
            cfg = dict(doc['cfg'])
            cfg['scratch'] = scratch
            from sim.profiles import OWNERS
            v, w, dig = runner.run_events(doc['events'], cfg,
                                          runner.load_known(),
                                          owners=OWNERS.get(doc['property']))
    finally:
        os.chdir(VERIF)
        shutil.rmtree(scratch, ignore_errors=True)
    if v is None:
        print('replay: no violation (recorded oracle %s)' % doc['oracle'])
        return 0
    same = v['oracle'] == doc['oracle']
    print('VIOLATION property=%s replay=%s' % (doc['property'], path))
    print('  oracle=%s event=%d digest_match=%s: %s'
          % (v['oracle'], v['event'], dig == doc.get('digest'),
             v['detail'][:1500]))
    if not same:
        print('  note: recorded oracle was %s' % doc['oracle'])
    return 1


if __name__ == '__main__':
    sys.exit(main())
