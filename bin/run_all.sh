#!/bin/bash
# dev helper: run every registered quick (or $1=thorough) check, validate evidence
cd "$(dirname "$0")/.."
tier=${1:-quick}
rc=0
for p in C01 C02 C03 C04 C05 C06 C07 C08 C09 C10 C11 C12 C13 C14 C15 C16 C18 C19 C20; do
  s=$(date +%s.%N)
  out=$(timeout 3000 /venv/bin/python bin/check.py $p --tier $tier 2>&1)
  code=$?
  e=$(date +%s.%N)
  printf "%s exit=%d %.1fs %s\n" $p $code $(echo "$e - $s" | bc) "$(echo "$out" | grep -v KNOWN | tail -1 | cut -c1-150)"
  [ $code -ne 0 ] && rc=1 && echo "$out" | tail -5
done
python3-vt - <<'PY'
import json, jsonschema, glob
schema = json.load(open('/root/.vp/EVIDENCE.schema.json'))
for f in sorted(glob.glob('evidence/*.json')):
    ev = json.load(open(f))
    jsonschema.validate(ev, schema)
    c = ev['coverage']
    print(f, 'valid', ev['level'], c['evaluations'], c['distinct_nontrivial'], ev['wall_s'])
PY
exit $rc
