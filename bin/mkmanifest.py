#!/venv/bin/python
"""Regenerate MANIFEST.json from the table below (kept in one place so the
manifest is always schema-valid and in step with the checks that exist)."""
import json
import os

VERIF = os.path.dirname(os.path.dirname(os.path.abspath(__file__)))

TECH = 'deterministic simulation: seeded scheduler over a pool of live ' \
       'tables, suspended readers and storage, with fault injection, checked ' \
       'against a dense reference model; swarm-style per-run configuration ' \
       '(focus runs on two or three operations, caller habits, fault rate and ' \
       'placement, observe-mutate-observe); ddmin-minimised replayable event ' \
       'lists'

def _c(text, note, tech, cat='exploration'):
    return (cat, text, note, tech)


_WORLD_NOTE = ('trusts the dense reference model in sim/ (written from the '
               'property text); bounds: tables <= 6x6 (thorough up to 14x14; '
               'storage probes also one axis of 513..800), '
               '<= 60 events per run, pool <= 6 tables, <= 4 suspended readers; '
               'compiled .pyx kernels cannot be rebuilt here')
_SAMPLING = ' Sampling over seeds, not proof: a clean batch is evidence.'

CLAIMED = {
    'C01': _c('Seeded histories (ops, layout perturbations) then write through '
              'to_hdf5 / save_table / biom_open with compress on/off and '
              'explicit or clock-defaulted creation date, reload through '
              'load_table(path), parse_table(handle), from_hdf5 on both axes, '
              'compare ids, bit-exact matrix, metadata, type, id placeholder, '
              'generated-by, date, group-metadata payload with the model; '
              'reloaded tables keep living in the pool.' + _SAMPLING,
              _WORLD_NOTE + '; no storage faults injected (no property says '
              'what a failed HDF5 write must leave)',
              'HDF5 round-trip probe after simulated histories'),
    'C02': _c('Histories then to_json (string and direct_io stream, explicit '
              'or simulated-clock date, header strings with quotes / '
              'backslashes / controls): json.loads must accept it, an '
              'independent BIOM-1.0 decoder must give the model, six library '
              'read routes (dict, StringIO, split lines, handle at offset, '
              'path, gzip) must give the model, stream == string as documents; '
              'stream write faults (ENOSPC on k-th write) must not be '
              'swallowed.' + _SAMPLING, _WORLD_NOTE,
              'JSON probe + stream fault injection'),
    'C03': _c('Histories then to_tsv / str / direct_io export (optionally one '
              'observation-metadata category through a formatter) and import '
              'through from_tsv (lines, StringIO, handle), load_table (path, '
              'gzip) and biom convert both ways; ids in order and exact '
              'matrix (and the category) must equal the model.' + _SAMPLING,
              _WORLD_NOTE + '; ids restricted to the quantifier\'s TSV-safe '
              'domain', 'TSV probe after simulated histories'),
    'C04': _c('Histories then write (to_hdf5, save_table, biom_open, biom '
              'convert), incl. 0xM and Nx0 tables; an independent decoder '
              '(raw h5py, written from biom-2.1.rst) checks attributes, '
              'groups, datasets, dtypes, shape, nnz, both CSR and CSC copies '
              '(indptr length/monotone/end, index range, no stored zeros) and '
              'that both decode to the model matrix.' + _SAMPLING,
              _WORLD_NOTE, 'independent spec decoder on files written after '
              'simulated histories'),
    'C05': _c('Seeded operation/read/reader-step histories over up to 6 live '
              'tables; after every event every table is checked for coherence '
              '(shape vs ids, unique ids, index/exists agreement incl. an '
              'absent id, metadata length) and every scheduled accessor '
              '(data, cell, iter, iter_pairwise, nonzero, sums, nnz, density) '
              'incl. suspended generators stepped between other events is '
              'compared with the dense model; callback faults (F1), unknown '
              'ids (F2), profile reactions inside operations (F6); a dense '
              'reader-interleaving probe; plus every sequence of length <= 2 '
              '(thorough: a quarter of length 3) over a 50-letter operation '
              'alphabet on a 2x3 table.' + _SAMPLING, _WORLD_NOTE,
              'coherence invariants after every event + accessor-vs-model'),
    'C06': _c('sort (natsort re-implemented independently, custom sort '
              'functions), sort_order (all permutations of short axes by '
              'Lehmer codes), align_to (4 modes), transpose, copy, update_ids '
              '(lengthening, shortening, rotating, colliding, partial) after '
              'arbitrary histories; result must equal the model permutation / '
              'relabelling incl. metadata; inverse pairs restore content; '
              'unknown (look-alike) ids refused without change; plus every '
              'permutation of axes up to length 4 x 3 layouts.' + _SAMPLING,
              _WORLD_NOTE,
              'reorder/rename ops vs model after simulated histories'),
    'C07': _c('Pool kept full so receivers, arguments and results coexist and '
              'keep being mutated in place; after every event every bystander '
              'table must equal its model (aliasing shows here); ops with an '
              'inplace flag are run both ways from the same state (result '
              'equal, receiver untouched, in-place returns self); callback '
              'faults must leave inputs of non-in-place ops untouched.'
              + _SAMPLING, _WORLD_NOTE,
              'bystander invariants + in-place/non-in-place twin execution'),
    'C08': _c('filter by id collections (list/tuple/set/array/dict keys, any '
              'order, invert, both axes, in place or not) and by instrumented '
              'predicates (call log: once per id, in order, true dense vector, '
              'id, metadata), remove_empty, head, after histories biased to '
              'reorderings (unsorted indices); unknown ids must raise and '
              'change nothing; predicate faults at every invocation index; '
              'plus the exhaustive small scope: every matrix over {0,1,2} up '
              'to 2x3/3x2 (thorough 3x3) x 3 layouts x axis x subset x invert '
              'x in-place/not.' + _SAMPLING, _WORLD_NOTE,
              'filter ops vs model + predicate call-log oracle'),
    'C09': _c('merge of pairs / k-tuples with forced overlap patterns, four '
              'union/intersection combinations, metadata on neither/either/'
              'both, default / custom / None metadata functions, fast and '
              'general path; id sets, per-pair sums, grand total, per-id '
              'metadata vs model; operands unchanged.' + _SAMPLING,
              _WORLD_NOTE, 'merge vs model after simulated histories'),
    'C10': _c('concat of k>=1 operands (made disjoint by recorded renamings) '
              'with identical / permuted / partially missing / disjoint other '
              'axis, both axes, method / biom.concat / single table; blocks, '
              'zero padding, metadata travel, exact grand total (fsum); '
              'overlapping ids must raise and change nothing.' + _SAMPLING,
              _WORLD_NOTE, 'concat vs model after simulated histories'),
    'C11': _c('partition (function, both dict forms, remove_empty, '
              'ignore_none, list-valued labels; consumed at once or as a '
              'suspended generator stepped between other events) and collapse '
              '(one-to-one with norm / min_group_size / custom collapse_f, '
              'one-to-many add/divide) vs model: exact membership, vectors, '
              'metadata, collapsed_ids, conservation of totals.' + _SAMPLING,
              _WORLD_NOTE, 'partition/collapse vs model incl. reader tasks'),
    'C12': _c('subsample on count tables after histories, both axes, with / '
              'without replacement, by_id, seeds from the PRNG: per-call '
              'invariants (sums == n, integer entries <= original, exactly the '
              'ids with total >= n, emptied other-axis vectors dropped, same '
              'seed same table, input untouched) plus outcome frequencies over '
              '400 (thorough 4000) seeds against exact hypergeometric / '
              'multinomial / uniform-subset laws (exact binomial tail < 1e-12 per outcome).' + _SAMPLING,
              _WORLD_NOTE + '; a change only in _subsample.pyx is invisible',
              'per-call invariants + seed-swept distribution test'),
    'C13': _c('transform with instrumented element-wise / vector-wise / '
              'zeroing functions (call log: exactly the non-zero values, id, '
              'metadata), norm, pa, rankdata (5 tie methods, independent rank '
              'implementation), both axes, in place or not, element-wise '
              'agreement across axes, normalize-table; after CSR/CSC flips and '
              'reorderings; function faults at every invocation index.'
              + _SAMPLING, _WORLD_NOTE,
              'transform ops vs model + function call-log oracle'),
    'C14': _c('files written from pool tables, non-empty id subsets in any '
              'order, both axes: from_hdf5 default and metadata-free, '
              'parse_table(ids=) on JSON handle/lines, subset-table on HDF5 '
              'and on JSON text as written / compact / spaced / indented '
              '(lazy generator stepped to the end) vs load-all-then-filter in '
              'the model; unknown ids must be refused.' + _SAMPLING,
              _WORLD_NOTE, 'subset-on-read probe vs model filter'),
    'C15': _c('For files written from pool tables (JSON and HDF5): validator '
              'must accept; then ALL single mutations of the corruption '
              'grammar are applied per JSON file (HDF5: all per file in the '
              'thorough tier and every third probe, a deterministic third '
              'otherwise) plus sampled pairs; an independent classifier decides '
              'from the final file which listed corruption classes it has; any '
              'class present => validator must not say valid; accepted numeric '
              'JSON must load with declared shape/ids/values.',
              _WORLD_NOTE + '; classifier in sim/probes_c15.py shares no code '
              'with the validator',
              'fault enumeration over a structural mutation grammar of stored '
              'files', 'fault_enumeration'),
    'C16': _c('twins built from one model state through different constructor '
              'routes / layouts / histories, a PRNG-chosen interleaving of '
              'read accessors (nnz, data, iter, ==, nonzero, sum) incl. '
              'suspended readers, then ==, !=, descriptive_equality both ways, '
              'reflexive/symmetric/transitive on triples, copy; equal tables '
              'must export equal TSV/JSON/HDF5 content and answer queries '
              'identically; single-difference pairs must be unequal.'
              + _SAMPLING, _WORLD_NOTE,
              'twin blocks with interleaved read accessors'),
    'C18': _c('add_metadata with mappings over sub/supersets of the ids, '
              'del_metadata with key subsets on sample/observation/whole, '
              'interleaved with the whole alphabet (bystanders sharing '
              'metadata history must not change); mapping files generated from '
              'a row grammar parsed by MetadataMap.from_file (lines, handle, '
              'path; conversions, header overrides) vs an independent parser, '
              'applied through add-metadata.' + _SAMPLING, _WORLD_NOTE,
              'metadata ops vs model + mapping-file grammar'),
    'C19': _c('sum, min/max, nonzero_counts, density, reduce, per-sample '
              'stats, to_dataframe, metadata_to_dataframe as scheduled read '
              'events; summarize-table text (3 modes) parsed line by line; '
              'table-ids, head, export-metadata callbacks; all vs the dense '
              'model on asymmetric tables in varied layouts.' + _SAMPLING,
              _WORLD_NOTE + '; locale pinned to C (only one installed)',
              'summary accessors and CLI reports vs model'),
    'C20': _c('Generated programs over seterr / seterrcall / errstate (nested, '
              'all=, invalid kinds/reactions, exit normally or by raising) / '
              'try / probes that trip exactly one kind through real table '
              'operations; each program is run fault-free and once per '
              'statement position with an exception injected there; after '
              'every statement the profile and callbacks must equal a scoped '
              'stack model and each probe must react as the model says.',
              'LIFO use of errstate only; sampling over programs, exhaustive '
              'over fault positions of each program',
              'fault enumeration: exception at every statement position of '
              'generated configuration programs', 'fault_enumeration'),
}

NOT_YET = 'check not built yet in this session (planned, see DESIGN.md 6)'
NA = {
    'C17': 'quantified over inputs only: a pure function of the constructor '
           'arguments with no state, schedule, clock, I/O fault or history; '
           'generating matrices in nine encodings is input generation, not '
           'simulation (DESIGN.md 6, C17)',
}

ALL = ['C%02d' % i for i in range(1, 21)]


def main():
    checks = []
    for pid in ALL:
        if pid not in CLAIMED:
            continue
        cat, text, note, tech = CLAIMED[pid][0], CLAIMED[pid][1], CLAIMED[pid][2], CLAIMED[pid][3]
        checks.append({
            'property_id': pid,
            'quick_cmd': '/venv/bin/python bin/check.py %s --tier quick' % pid,
            'thorough_cmd': '/venv/bin/python bin/check.py %s --tier thorough'
                            % pid,
            'evidence_file': '/verif/evidence/%s.json' % pid,
            'replay_cmd_template': '/venv/bin/python bin/replay.py {path}',
            'engine': 'c20programs' if pid == 'C20' else 'tableworld',
            'level_claimed': {'category': cat, 'text': text,
                              'design_ref': 'DESIGN.md section 6 (%s)' % pid},
            'level_note': note,
            'technique': TECH + '; ' + tech,
        })
    na = []
    for pid in ALL:
        if pid in CLAIMED:
            continue
        na.append({'property_id': pid, 'reason': NA.get(pid, NOT_YET)})
    doc = {
        'version': 1,
        'setup_cmd': '/venv/bin/python bin/prepare.py',
        'hooks': {
            'guard': 'BIOM_FORMAT_VERIF',
            'enable': 'no hooks exist: every seam is an existing parameter, '
                      'argument object or module attribute rebound by the '
                      'harness at run time (DESIGN.md 12); checks import '
                      '/repo\'s working tree directly',
            'baseline_off_cmd': 'cd /repo && /venv/bin/python -m pytest -ra -q '
                                '-p no:cacheprovider --timeout=900 '
                                '--continue-on-collection-errors',
            'source_commits': [],
            'add_only': True,
        },
        'engines': [{
            'name': 'c20programs', 'path': 'sim/c20.py',
            'serves_properties': ['C20'],
            'kind_free_text': 'program generator + recursive interpreter with '
                              'real with/try, exception injected at every '
                              'statement position, scoped-stack model',
        }, {
            'name': 'tableworld', 'path': 'sim/',
            'serves_properties': sorted(p for p in CLAIMED if p != 'C20'),
            'kind_free_text': 'in-process deterministic simulator: seeded '
                              'scheduler, dense reference model, fault '
                              'injection, ddmin shrinker, replay files',
        }],
        'checks': checks,
        'not_applicable': na,
        'notes': 'Compiled kernels (.pyx) cannot be rebuilt here (no Cython): '
                 'a change made only in a .pyx file is invisible to these '
                 'checks and to the test suite alike. fix: commits in /repo '
                 'are listed in known_findings.json.',
    }
    with open(os.path.join(VERIF, 'MANIFEST.json'), 'w') as f:
        json.dump(doc, f, indent=1)
    try:
        import jsonschema
        schema = json.load(open('/root/.vp/MANIFEST.schema.json'))
        jsonschema.validate(doc, schema)
        print('MANIFEST.json valid: %d checks, %d not_applicable'
              % (len(checks), len(na)))
    except ImportError:
        print('MANIFEST.json written (jsonschema not available here)')


if __name__ == '__main__':
    main()
