#!/venv/bin/python
"""Regenerate MANIFEST.json from the table below (kept in one place so the
manifest is always schema-valid and in step with the checks that exist)."""
import json
import os

VERIF = os.path.dirname(os.path.dirname(os.path.abspath(__file__)))

TECH = 'deterministic simulation: seeded scheduler over a pool of live ' \
       'tables, suspended readers and storage, with fault injection, checked ' \
       'against a dense reference model; ddmin-minimised replayable event lists'

CLAIMED = {
    # id: (category, text, note, technique-suffix)
    'C05': ('exploration',
            'Seeded operation/read/reader-step histories over up to 6 live '
            'tables; after every event every table is checked for coherence '
            '(shape vs ids, unique ids, index/exists agreement incl. an absent '
            'id, metadata length) and every scheduled accessor is compared '
            'with a dense reference model. Sampling, not proof.',
            'trusts the reference model in sim/; bounds: tables <= 6x6 '
            '(thorough 12x12), <= 60 events per run',
            'coherence invariants after every event + accessor-vs-model'),
}

NOT_YET = 'check not built yet in this session (planned, see DESIGN.md 6)'
NA = {
    'C17': 'quantified over inputs only: a pure function of the constructor '
           'arguments with no state, schedule, clock, I/O fault or history; '
           'generating matrices in nine encodings is input generation, not '
           'simulation (DESIGN.md 6, C17)',
}

ALL = ['C%02d' % i for i in range(1, 21)]


def main():
    checks = []
    for pid in ALL:
        if pid not in CLAIMED:
            continue
        cat, text, note, tech = CLAIMED[pid]
        checks.append({
            'property_id': pid,
            'quick_cmd': '/venv/bin/python bin/check.py %s --tier quick' % pid,
            'thorough_cmd': '/venv/bin/python bin/check.py %s --tier thorough'
                            % pid,
            'evidence_file': '/verif/evidence/%s.json' % pid,
            'replay_cmd_template': '/venv/bin/python bin/replay.py {path}',
            'engine': 'tableworld',
            'level_claimed': {'category': cat, 'text': text,
                              'design_ref': 'DESIGN.md section 6 (%s)' % pid},
            'level_note': note,
            'technique': TECH + '; ' + tech,
        })
    na = []
    for pid in ALL:
        if pid in CLAIMED:
            continue
        na.append({'property_id': pid, 'reason': NA.get(pid, NOT_YET)})
    doc = {
        'version': 1,
        'setup_cmd': '/venv/bin/python bin/prepare.py',
        'hooks': {
            'guard': 'BIOM_FORMAT_VERIF',
            'enable': 'no hooks exist: every seam is an existing parameter, '
                      'argument object or module attribute rebound by the '
                      'harness at run time (DESIGN.md 12); checks import '
                      '/repo\'s working tree directly',
            'baseline_off_cmd': 'cd /repo && /venv/bin/python -m pytest -ra -q '
                                '-p no:cacheprovider --timeout=900 '
                                '--continue-on-collection-errors',
            'source_commits': [],
            'add_only': True,
        },
        'engines': [{
            'name': 'tableworld', 'path': 'sim/',
            'serves_properties': sorted(CLAIMED),
            'kind_free_text': 'in-process deterministic simulator: seeded '
                              'scheduler, dense reference model, fault '
                              'injection, ddmin shrinker, replay files',
        }],
        'checks': checks,
        'not_applicable': na,
        'notes': 'Compiled kernels (.pyx) cannot be rebuilt here (no Cython): '
                 'a change made only in a .pyx file is invisible to these '
                 'checks and to the test suite alike. fix: commits in /repo '
                 'are listed in known_findings.json.',
    }
    with open(os.path.join(VERIF, 'MANIFEST.json'), 'w') as f:
        json.dump(doc, f, indent=1)
    try:
        import jsonschema
        schema = json.load(open('/root/.vp/MANIFEST.schema.json'))
        jsonschema.validate(doc, schema)
        print('MANIFEST.json valid: %d checks, %d not_applicable'
              % (len(checks), len(na)))
    except ImportError:
        print('MANIFEST.json written (jsonschema not available here)')


if __name__ == '__main__':
    main()
