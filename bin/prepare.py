#!/venv/bin/python
"""setup_cmd: offline sanity check of what the checks need (nothing to build:
the framework is pure Python; the repository's compiled kernels are used as
present)."""
import os
import sys

repo = os.environ.get('VERIF_REPO', '/repo')
sys.path.insert(0, repo)
import numpy, scipy, h5py, pandas, click  # noqa
import biom  # noqa
from biom import _filter, _transform, _subsample  # noqa
assert os.path.abspath(biom.__file__).startswith(os.path.abspath(repo)), \
    biom.__file__
stale = []
for k in ('_filter', '_transform', '_subsample'):
    pyx = os.path.join(repo, 'biom', k + '.pyx')
    so = [f for f in os.listdir(os.path.join(repo, 'biom'))
          if f.startswith(k + '.') and f.endswith('.so')]
    if so and os.path.getmtime(pyx) > os.path.getmtime(
            os.path.join(repo, 'biom', so[0])) + 1:
        stale.append(k)
os.makedirs(os.path.join(os.path.dirname(os.path.dirname(
    os.path.abspath(__file__))), 'evidence'), exist_ok=True)
print('prepare: ok numpy %s scipy %s h5py %s pandas %s; stale kernels: %s'
      % (numpy.__version__, scipy.__version__, h5py.__version__,
         pandas.__version__, stale or 'none'))
