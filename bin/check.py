#!/venv/bin/python
"""check.py <property> [--tier quick|thorough] [--runs N] [--workers N]

Exit 0: property held on everything explored (possibly KNOWN-FINDING lines).
Exit 1: 'VIOLATION property=<id> replay=<path>' printed.
Exit 2: harness error (never a verdict)."""
import argparse
import json
import os
import sys
import time

PINNED = {'PYTHONHASHSEED': '0', 'LC_ALL': 'C', 'LANG': 'C', 'TZ': 'UTC',
          'OMP_NUM_THREADS': '1', 'OPENBLAS_NUM_THREADS': '1',
          'MKL_NUM_THREADS': '1', 'PYTHONDONTWRITEBYTECODE': '1'}


def pin_environment():
    need = {k: v for k, v in PINNED.items() if os.environ.get(k) != v}
    if need and os.environ.get('VERIF_NO_REEXEC') != '1':
        env = dict(os.environ)
        env.update(PINNED)
        if 'VERIF_HASHSEED' in os.environ:       # determinism self-test only
            env['PYTHONHASHSEED'] = os.environ['VERIF_HASHSEED']
        env['VERIF_NO_REEXEC'] = '1'
        os.execve(sys.executable, [sys.executable] + sys.argv, env)


VERIF = os.path.dirname(os.path.dirname(os.path.abspath(__file__)))


def main():
    pin_environment()
    ap = argparse.ArgumentParser()
    ap.add_argument('prop')
    ap.add_argument('--tier', default=os.environ.get('VERIF_TIER', 'quick'))
    ap.add_argument('--runs', type=int, default=None)
    ap.add_argument('--workers', type=int,
                    default=int(os.environ.get('VERIF_WORKERS', '16')))
    ap.add_argument('--budget', type=float, default=None,
                    help='wall-clock cap in seconds (can only shorten a batch)')
    ap.add_argument('--no-evidence', action='store_true')
    ap.add_argument('--no-sweep', action='store_true')
    ap.add_argument('--sweep', action='store_true',
                    help='run the small-scope sweep even with --runs')
    ap.add_argument('--isolated', type=int, default=None,
                    help='internal: run this one seed with a write-ahead log')
    ap.add_argument('--wal', default=None)
    ap.add_argument('--digests', default=None,
                    help='write {seed: digest} JSON here (self-tests)')
    args = ap.parse_args()
    repo = os.environ.get('VERIF_REPO', '/repo')
    sys.path.insert(0, repo)
    sys.path.insert(0, VERIF)
    os.chdir(VERIF)
    import biom
    if not os.path.abspath(biom.__file__).startswith(os.path.abspath(repo)):
        print('HARNESS-ERROR: biom imported from %s, not %s'
              % (biom.__file__, repo))
        sys.exit(2)
    if args.isolated is not None:
        from sim import runner
        sys.exit(runner.isolated_seed(args.prop, args.tier, args.isolated,
                                      args.wal))
    from sim import driver
    sys.exit(driver.check(args.prop, args.tier, args))


if __name__ == '__main__':
    main()
